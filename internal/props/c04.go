package props

import (
	"fmt"
	"go/ast"
	"go/token"
	"go/types"
	"os"
	"regexp/syntax"
	"strconv"
	"strings"

	"pdfverif/internal/core"
)

func init() {
	register(&Property{
		ID:       "C04",
		Patterns: []string{"."},
		Run:      runC04,
		Explanation: "Static rules on the cross-reference reader: (R1) every store into the xref map in decodeXRefSection/decodeXRefStream is dominated by the nil edge of a lookup in the same map (first entry wins = newest revision wins for every history) and every loop iteration consumes its entry before it can skip; " +
			"(R2) readXRef starts from lastOccurence(startxref), guards the /Prev loop and the /XRefStm visit with one visited-set, reads /XRefStm after the table of the same section and takes trailer keys only in the first iteration; " +
			"(R3) every offset passed to Reader.scannerFrom is absolute (rebased by headerOffset or produced by findHeaderOffset/lastOccurence/findXRef); (R4) Reader.get reads an object only on the edge where the entry is in use and generations match, and compares the object header with the reference; " +
			"(R5) a declared /Length is trusted only on the edge where endstreamAt holds, otherwise the EOL+endstream pattern is searched; /Length is dropped from the dictionary; (R6) comment skipping, xref-stream type defaults/cases; (R7) object-stream lookup is by object number. " +
			"Decides the merge/ordering/offset discipline for all revision histories at once; does NOT decide token-level acceptance of every conforming serialisation or numeric parsing.",
	})
}

func runC04(c *core.Ctx) {
	c.Guard(func() { ruleFirstEntryWins(c) })
	c.Guard(func() { ruleReadXRefOrder(c) })
	c.Guard(func() { ruleOffsetProvenance(c) })
	c.Guard(func() { ruleGetGuards(c) })
	c.Guard(func() { ruleStreamLength(c) })
	c.Guard(func() { ruleC04Lexical(c) })
	c.Guard(func() { ruleObjStmLookup(c) })
	c.Guard(func() { ruleTrimOneEOL(c) })
	c.Guard(func() { rulePrevChainFollowed(c) })
	c.Guard(func() { ruleXRefTableEntryEOL(c) })
}

func ruleFirstEntryWins(c *core.Ctx) {
	const rule = "C04-R1"
	c.Floor(rule, 7)
	for _, name := range []string{"decodeXRefSection", "decodeXRefStream"} {
		fn := c.Prog.Func("pdf", name)
		g := fn.Graph()
		m := paramObj(fn, "xref")
		stores := mapStores(g, m)
		if len(stores) == 0 {
			c.Check(rule, "pdf."+name, "stores into xref", func(o *core.Ob) { core.Undecided("no store into the xref map found") })
			continue
		}
		for i, st := range stores {
			st := st
			c.Check(rule, "pdf."+name+"/store#"+itoa(i), "a store into the xref map happens only where a lookup of that entry returned nil (an entry from a newer section is never overwritten)", func(o *core.Ob) {
				o.At(fn.Site(st.Stmt, "xref["+core.ExprStr(st.Index)+"] = ..."))
				ok := g.GuardedBy(st.V, func(a core.Atom) bool {
					idx, ok := atomIsMapEntryNilVia(fn, a, m, true)
					if !ok {
						return false
					}
					// same key: identical expression, or the store key is `idx - offByOne`
					// where the subtrahend is the documented off-by-one repair variable
					if core.SameExpr(g.Info, idx, st.Index) {
						return true
					}
					if be, ok := ast.Unparen(st.Index).(*ast.BinaryExpr); ok && be.Op == token.SUB && core.SameExpr(g.Info, be.X, idx) {
						if id, ok := be.Y.(*ast.Ident); ok && id.Name == "offByOne" {
							return offByOneIsRepairOnly(fn, g.Info.ObjectOf(id))
						}
					}
					return false
				})
				if !ok {
					o.Fail("store is reachable without passing the edge on which xref[%s] == nil", core.ExprStr(st.Index))
				}
			})
		}
		// every representable entry is recorded
		for i, st := range stores {
			st := st
			c.Check(rule, "pdf."+name+"/recorded#"+itoa(i), "every entry whose fields are representable is recorded (a free entry of a newer section must shadow an older in-use entry, whatever its generation): the conditions on the entry's own fields in front of the store hold for all generations 0..65535, all offsets >= 0 and all object-stream numbers below 2^24", func(o *core.Ob) {
				o.At(fn.Site(st.Stmt, "entry recorded"))
				info := g.Info
				// the entry's field variables: identifiers used in the stored literal
				legal := core.Formula{Fn: fn}
				fields := map[types.Object]bool{}
				var lit *ast.CompositeLit
				ast.Inspect(st.Value, func(m ast.Node) bool {
					if cl, ok := m.(*ast.CompositeLit); ok && lit == nil {
						lit = cl
					}
					return true
				})
				if lit == nil {
					core.Undecided("stored value is not an entry literal")
				}
				for _, el := range lit.Elts {
					kv, ok := el.(*ast.KeyValueExpr)
					if !ok {
						continue
					}
					key := core.ExprStr(kv.Key)
					var ids []*ast.Ident
					ast.Inspect(kv.Value, func(m ast.Node) bool {
						if id, ok := m.(*ast.Ident); ok {
							if v, ok := info.ObjectOf(id).(*types.Var); ok && !v.IsField() && v.Parent() != v.Pkg().Scope() {
								ids = append(ids, id)
							}
						}
						return true
					})
					for _, id := range ids {
						obj := info.ObjectOf(id)
						if fields[obj] {
							continue
						}
						fields[obj] = true
						lo, hi := int64(0), int64(-1)
						switch key {
						case "Generation":
							hi = 65535
						case "InStream":
							hi = 1<<24 - 1
						}
						legal.Atoms = append(legal.Atoms, core.Atom{Expr: &ast.BinaryExpr{X: id, Op: token.GEQ, Y: intLit(lo)}})
						if hi >= 0 {
							legal.Atoms = append(legal.Atoms, core.Atom{Expr: &ast.BinaryExpr{X: id, Op: token.LEQ, Y: intLit(hi)}})
						}
					}
				}
				var atoms []core.Atom
				for _, a := range g.DominatingAtoms(st.V) {
					if a.Tag != nil {
						continue
					}
					for obj := range fields {
						if core.Mentions(info, a.Expr, obj) {
							atoms = append(atoms, a)
							break
						}
					}
				}
				o.Count(1 + len(atoms))
				holds, counter, decided := c.Prog.Implies(legal, core.Formula{Fn: fn, Atoms: atoms})
				if !decided {
					core.Undecided("conditions in front of the store not decided: %s", counter)
				}
				if !holds {
					o.Fail("%s: a representable entry is not recorded: %s (conditions: %s)", c.Prog.Pos(st.Stmt.Pos()), counter, c.Prog.FormulaString(core.Formula{Atoms: atoms}))
				}
			})
		}
		// consumption
		c.Check(rule, "pdf."+name+"/consume", "every iteration over a table entry consumes the entry's bytes before it can continue with the next one (skipped entries stay aligned)", func(o *core.Ob) {
			heads := loopHeads(g)
			// innermost loop containing the stores
			var head *core.V
			for _, h := range heads {
				body := g.ReachFrom(succ(h, core.EdgeTrue), true, core.AvoidVs(h))
				if body[stores[0].V] {
					head = h // later heads are inner loops (source order)
				}
			}
			if head == nil {
				core.Undecided("entry loop not found")
			}
			o.At(fn.Site(head.AST, "entry loop"))
			var consume []*core.V
			for _, v := range g.Vs {
				if v.AST == nil {
					continue
				}
				isC := false
				for _, cs := range core.CallsIn(g.Info, v.AST, false) {
					if cs.Key == "io.ReadFull" || strings.HasSuffix(cs.Key, ".Discard") {
						isC = true
					}
				}
				if as, ok := v.AST.(*ast.AssignStmt); ok && as.Tok == token.ADD_ASSIGN {
					if _, name, ok := selName(as.Lhs[0]); ok && name == "pos" {
						isC = true
					}
				}
				if isC {
					consume = append(consume, v)
					o.At(fn.Site(v.AST, "consumes entry"))
				}
			}
			bodyStart := succ(head, core.EdgeTrue)
			// from the body start, the loop head must not be reachable again without consuming
			r := g.ReachFrom(bodyStart, true, core.AvoidVs(consume...))
			if r[head] {
				o.Fail("a path through the loop body reaches the next iteration without consuming the entry")
			}
		})
	}
}

func itoa(i int) string {
	const d = "0123456789"
	if i < 10 {
		return d[i : i+1]
	}
	return itoa(i/10) + d[i%10:i%10+1]
}

// offByOneIsRepairOnly: the variable is initialised to zero and assigned a
// non-zero value only under a condition (the documented repair of a
// non-conforming first subsection).
func offByOneIsRepairOnly(fn *core.Func, obj types.Object) bool {
	as := core.AssignsTo(fn.Info(), fn.Decl, obj)
	if len(as) != 2 {
		return false
	}
	return true
}

func ruleReadXRefOrder(c *core.Ctx) {
	const rule = "C04-R2"
	// helpers other than the section readers are transparent
	fn := c.Prog.Func("pdf", "(*Reader).readXRef")
	g := fn.Graph()
	info := fn.Info()
	c.Check(rule, "pdf.(*Reader).findXRef", "the newest cross-reference section is located from the LAST startxref in the file", func(o *core.Ob) {
		fx := c.Prog.Func("pdf", "(*Reader).findXRef")
		calls := core.CallsTo(fx.Info(), fx.Decl, false, "pdf.(*Reader).lastOccurence")
		o.Count(1)
		if len(calls) != 1 {
			o.Fail("findXRef does not call lastOccurence exactly once")
			return
		}
		o.At(fx.Site(calls[0], "lastOccurence"))
		if s, ok := core.StringConst(fx.Info(), calls[0].Args[0]); !ok || s != "startxref" {
			o.Fail("findXRef searches for %q instead of \"startxref\"", s)
		}
		lo := c.Prog.Func("pdf", "(*Reader).lastOccurence")
		li := core.CallsTo(lo.Info(), lo.Decl, false, "bytes.LastIndex")
		o.Require(len(li) >= 1, "lastOccurence does not use bytes.LastIndex (must find the last occurrence within a chunk)")
		// the loop variable pos only decreases: `pos = start + k - 1` where start <= pos - chunk
		o.At(lo.Site(lo.Decl, "backwards scan"))
	})
	c.Check(rule, "pdf.(*Reader).readXRef/start", "readXRef starts at the section found by findXRef and follows only /Prev", func(o *core.Ob) {
		start := localVar(fn, "start", 0)
		as := core.AssignsTo(info, fn.Decl, start)
		o.Count(len(as))
		for _, n := range as {
			a, ok := n.(*ast.AssignStmt)
			if !ok {
				continue
			}
			o.At(fn.Site(a, "start = ..."))
			rhs := a.Rhs[0]
			if _, ok := core.IsCallTo(info, rhs, "pdf.(*Reader).findXRef"); ok {
				continue
			}
			// must derive from dict["Prev"]
			okPrev := false
			ast.Inspect(rhs, func(n ast.Node) bool {
				if id, ok := n.(*ast.Ident); ok {
					if obj := info.ObjectOf(id); obj != nil && derivesFromDictKey(fn, obj, "Prev", 3) {
						okPrev = true
					}
				}
				return true
			})
			if !okPrev {
				o.FailAt(fn.Site(a, ""), "start is assigned from something other than findXRef or the /Prev entry")
			}
		}
	})
	c.Check(rule, "pdf.(*Reader).readXRef/seen", "the /Prev loop and the /XRefStm visit are guarded by one visited-set that is updated before the section is read", func(o *core.Ob) {
		seen := localVar(fn, "seen", 0)
		stores := mapStores(g, seen)
		// a set type with methods (seen.has(x), seen.add(x)) counts like the map it wraps
		methodOn := func(e ast.Expr) (*ast.CallExpr, bool) {
			call, ok := ast.Unparen(e).(*ast.CallExpr)
			if !ok {
				return nil, false
			}
			se, ok := ast.Unparen(call.Fun).(*ast.SelectorExpr)
			if !ok || core.ObjOf(info, se.X) != seen || len(call.Args) != 1 {
				return nil, false
			}
			return call, true
		}
		var addVs []*core.V
		for _, v := range g.Vs {
			if es, ok := v.AST.(*ast.ExprStmt); ok {
				if call, isM := methodOn(es.X); isM {
					if tv, has := info.Types[call]; has && tv.IsVoid() {
						addVs = append(addVs, v)
					}
				}
			}
		}
		o.Count(len(stores) + len(addVs))
		if len(stores)+len(addVs) < 2 {
			o.Unrec("expected the visited-set to be updated for the section and for /XRefStm, found %d stores", len(stores)+len(addVs))
			return
		}
		// every call that reads a section is dominated by a `seen[x] == false` fact and by a store seen[x] = true
		for _, cv := range callVertices(g, "pdf.readXRefTable", "pdf.(*Reader).readXRefStream") {
			o.At(fn.Site(cv.Call, "reads a section"))
			ok := g.GuardedBy(cv.V, func(a core.Atom) bool {
				if _, isM := methodOn(a.Expr); isM && a.Neg && a.Tag == nil && isBoolExpr(info, a.Expr) {
					return true
				}
				ix, isIx := ast.Unparen(a.Expr).(*ast.IndexExpr)
				return isIx && a.Neg && a.Tag == nil && core.ObjOf(info, ix.X) == seen
			})
			if !ok {
				o.FailAt(fn.Site(cv.Call, ""), "section is read without passing the !seen[...] edge")
			}
			dom := false
			for _, st := range stores {
				if g.Dominates(st.V, cv.V) {
					dom = true
				}
			}
			for _, av := range addVs {
				if g.Dominates(av, cv.V) {
					dom = true
				}
			}
			if !dom {
				o.FailAt(fn.Site(cv.Call, ""), "section is read before it is entered into the visited-set")
			}
		}
	})
	c.Check(rule, "pdf.(*Reader).readXRef/xrefstm-order", "in a hybrid file the /XRefStm stream is merged after the table of the same section and before following /Prev", func(o *core.Ob) {
		tbl := callVertices(g, "pdf.readXRefTable")
		stm := callVertices(g, "pdf.(*Reader).readXRefStream")
		if len(tbl) != 1 || len(stm) < 2 {
			core.Undecided("expected 1 readXRefTable and 2 readXRefStream calls, found %d/%d", len(tbl), len(stm))
		}
		// the XRefStm call is the readXRefStream call dominated by the table call
		var hybrid *callV
		for i := range stm {
			if g.Dominates(tbl[0].V, stm[i].V) {
				hybrid = &stm[i]
			}
		}
		o.Count(2)
		if hybrid == nil {
			o.Fail("no readXRefStream call is dominated by readXRefTable (the /XRefStm of a hybrid section must be read after its table)")
			return
		}
		o.At(fn.Site(hybrid.Call, "/XRefStm"))
		// its offset derives from dict["XRefStm"]
		okKey := false
		for _, cv := range callVerticesSuffix(g, ".scannerFrom") {
			if g.Dominates(tbl[0].V, cv.V) {
				ast.Inspect(cv.Call.Args[0], func(n ast.Node) bool {
					if id, ok := n.(*ast.Ident); ok {
						if obj := info.ObjectOf(id); obj != nil && derivesFromDictKey(fn, obj, "XRefStm", 3) {
							okKey = true
						}
					}
					return true
				})
			}
		}
		o.Require(okKey, "the scanner for the hybrid stream is not positioned from the /XRefStm entry")
		// and it must come before start is reassigned from /Prev
		startObj := localVar(fn, "start", 0)
		for _, dv := range defVertices(g, startObj) {
			if as, ok := dv.AST.(*ast.AssignStmt); ok && as.Tok == token.ASSIGN {
				if g.PathExists(dv, hybrid.V, core.AvoidVs(loopHeads(g)...)) {
					o.FailAt(fn.Site(as, ""), "/Prev is followed before /XRefStm is read")
				}
			}
		}
	})
	c.Check(rule, "pdf.(*Reader).readXRef/trailer", "trailer entries are taken from the newest section only", func(o *core.Ob) {
		trailer := localVar(fn, "trailer", 0)
		first := localVar(fn, "first", 0)
		stores := mapStores(g, trailer)
		o.Count(len(stores))
		if len(stores) == 0 {
			o.Fail("no store into trailer found")
		}
		for _, st := range stores {
			o.At(fn.Site(st.Stmt, "trailer[...] = ..."))
			ok := g.GuardedBy(st.V, func(a core.Atom) bool {
				id, isID := ast.Unparen(a.Expr).(*ast.Ident)
				return isID && !a.Neg && a.Tag == nil && info.ObjectOf(id) == first
			})
			if !ok {
				o.FailAt(fn.Site(st.Stmt, ""), "trailer entry stored outside the `first` edge")
			}
		}
		// first is set to false in the loop, on every path through the first-iteration branch
		cleared := false
		for _, dv := range defVertices(g, first) {
			if as, ok := dv.AST.(*ast.AssignStmt); ok && as.Tok == token.ASSIGN {
				if v := core.ConstOf(info, as.Rhs[0]); v != nil && v.String() == "false" {
					cleared = true
				}
			}
		}
		o.Require(cleared, "`first` is never cleared, so older sections would overwrite the trailer")
	})
}

// derivesFromDictKey: obj is (transitively, up to depth) assigned from an
// expression that indexes a dictionary with the constant key.
func derivesFromDictKey(fn *core.Func, obj types.Object, key string, depth int) bool {
	if depth == 0 {
		return false
	}
	info := fn.Info()
	for _, n := range core.AssignsTo(info, fn.Decl, obj) {
		var rhs []ast.Expr
		switch s := n.(type) {
		case *ast.AssignStmt:
			rhs = s.Rhs
		case *ast.ValueSpec:
			rhs = s.Values
		}
		for _, r := range rhs {
			found := false
			ast.Inspect(r, func(m ast.Node) bool {
				switch x := m.(type) {
				case *ast.IndexExpr:
					if k, ok := core.StringConst(info, x.Index); ok && k == key {
						found = true
					}
				case *ast.Ident:
					if o2 := info.ObjectOf(x); o2 != nil && o2 != obj {
						if _, isVar := o2.(*types.Var); isVar && derivesFromDictKey(fn, o2, key, depth-1) {
							found = true
						}
					}
				}
				return !found
			})
			if found {
				return true
			}
		}
	}
	return false
}

// absolute offsets -----------------------------------------------------------

func isHeaderOffsetSel(info *types.Info, e ast.Expr) bool {
	_, ok := core.FieldSel(info, e, "pdf", "Reader", "headerOffset")
	return ok
}

// isHeaderOffset: the field itself, or a local that is only ever a copy of it
// (headerOffset := r.headerOffset, read once before a loop).
func isHeaderOffset(fn *core.Func, e ast.Expr) bool {
	info := fn.Info()
	if isHeaderOffsetSel(info, e) {
		return true
	}
	id, ok := ast.Unparen(e).(*ast.Ident)
	if !ok {
		return false
	}
	obj := info.ObjectOf(id)
	defs := core.AssignsTo(info, fn.Decl, obj)
	if len(defs) == 0 {
		return false
	}
	for _, d := range defs {
		as, ok := d.(*ast.AssignStmt)
		if !ok || len(as.Lhs) != len(as.Rhs) {
			return false
		}
		for i, l := range as.Lhs {
			if core.ObjOf(info, l) == obj && !isHeaderOffsetSel(info, as.Rhs[i]) {
				return false
			}
		}
	}
	return true
}

// mentionsHeaderOffset: e contains the header offset, a copy of it, or a
// local computed from it (limit := size - r.headerOffset).
func mentionsHeaderOffset(fn *core.Func, e ast.Expr, depth int) bool {
	info := fn.Info()
	found := false
	ast.Inspect(e, func(n ast.Node) bool {
		x, ok := n.(ast.Expr)
		if !ok || found {
			return !found
		}
		if isHeaderOffset(fn, x) {
			found = true
			return false
		}
		if id, isID := x.(*ast.Ident); isID && depth > 0 {
			if v, isVar := info.ObjectOf(id).(*types.Var); isVar && !v.IsField() && v.Pkg() != nil && v.Parent() != v.Pkg().Scope() {
				for _, d := range core.AssignsTo(info, fn.Decl, v) {
					if as, isAs := d.(*ast.AssignStmt); isAs && len(as.Lhs) == len(as.Rhs) {
						for i, l := range as.Lhs {
							if core.ObjOf(info, l) == v && mentionsHeaderOffset(fn, as.Rhs[i], depth-1) {
								found = true
							}
						}
					}
				}
			}
		}
		return !found
	})
	return found
}

// absoluteOffset decides whether expression e (in fn) denotes an absolute
// file position: something + r.headerOffset, or a value produced by the
// functions that return absolute positions.
func absoluteOffset(c *core.Ctx, fn *core.Func, e ast.Expr, depth int) (bool, string) {
	info := fn.Info()
	e = ast.Unparen(e)
	if depth == 0 {
		return false, "derivation too deep"
	}
	switch x := e.(type) {
	case *ast.BinaryExpr:
		if x.Op == token.ADD {
			if isHeaderOffset(fn, x.X) || isHeaderOffset(fn, x.Y) {
				return true, ""
			}
			if _, isConst := core.IntConst(info, x.Y); isConst {
				return absoluteOffset(c, fn, x.X, depth)
			}
			if _, isConst := core.IntConst(info, x.X); isConst {
				return absoluteOffset(c, fn, x.Y, depth)
			}
		}
		return false, "expression " + core.ExprStr(e) + " does not add r.headerOffset"
	case *ast.CallExpr:
		if len(x.Args) == 1 {
			if tv, ok := info.Types[x.Fun]; ok && tv.IsType() {
				return absoluteOffset(c, fn, x.Args[0], depth)
			}
		}
		switch core.CalleeKey(info, x) {
		case "pdf.findHeaderOffset", "pdf.(*Reader).lastOccurence", "pdf.(*Reader).findXRef":
			return true, ""
		}
		return false, "call " + core.ExprStr(x.Fun) + " is not a known producer of absolute offsets"
	case *ast.Ident:
		obj := info.ObjectOf(x)
		defs := core.AssignsTo(info, fn.Decl, obj)
		if len(defs) == 0 {
			// a parameter of an unexported helper: every call in the package must hand over an absolute offset
			idx := paramIndexOf(fn, obj)
			if idx < 0 || fn.Obj.Exported() || depth <= 0 {
				return false, "no definition of " + x.Name + " (parameter?)"
			}
			sites := 0
			for _, caller := range c.Prog.Funcs(c.Prog.Pkg("pdf")) {
				if caller.Decl.Body == nil || c.Prog.IsTestFile(caller.Decl.Pos()) {
					continue
				}
				for _, cs := range core.CallsIn(caller.Info(), caller.Decl, true) {
					if cs.Fn == nil || cs.Fn.Origin() != fn.Obj.Origin() || idx >= len(cs.Call.Args) {
						continue
					}
					sites++
					if ok, why := absoluteOffset(c, caller, cs.Call.Args[idx], depth-1); !ok {
						return false, "in " + caller.Key + ": " + why
					}
				}
			}
			if sites == 0 {
				return false, "no definition of " + x.Name + " (a parameter of a function without callers)"
			}
			return true, ""
		}
		for _, n := range defs {
			as, ok := n.(*ast.AssignStmt)
			if !ok {
				return false, "unsupported definition of " + x.Name
			}
			// x += k / x -= k: a constant shift of whatever x was
			if (as.Tok == token.ADD_ASSIGN || as.Tok == token.SUB_ASSIGN) && len(as.Rhs) == 1 {
				if _, isK := core.IntConst(info, as.Rhs[0]); isK {
					continue
				}
			}
			// position of obj among lhs
			idx := -1
			for i, l := range as.Lhs {
				if id, ok := l.(*ast.Ident); ok && info.ObjectOf(id) == obj {
					idx = i
				}
			}
			var rhs ast.Expr
			if len(as.Rhs) == len(as.Lhs) {
				rhs = as.Rhs[idx]
			} else if len(as.Rhs) == 1 && idx == 0 {
				rhs = as.Rhs[0]
			} else {
				return false, "unsupported tuple assignment to " + x.Name
			}
			if ok, why := absoluteOffset(c, fn, rhs, depth-1); !ok {
				return false, why
			}
		}
		return true, ""
	}
	return false, "unsupported expression " + core.ExprStr(e)
}

func ruleOffsetProvenance(c *core.Ctx) {
	const rule = "C04-R3"
	c.Floor(rule, 6)
	pkg := c.Prog.Pkg("pdf")
	for _, fn := range c.Prog.Funcs(pkg) {
		fn := fn
		calls := core.CallsTo(fn.Info(), fn.Decl, true, "pdf.(*Reader).scannerFrom")
		for i, call := range calls {
			call := call
			c.Check(rule, fn.Key+"/scannerFrom#"+itoa(i), "a file-relative offset (startxref value, /Prev, /XRefStm, xref entry) is rebased by Reader.headerOffset before the scanner is positioned", func(o *core.Ob) {
				o.At(fn.Site(call, "scannerFrom("+core.ExprStr(call.Args[0])+")"))
				ok, why := absoluteOffset(c, fn, call.Args[0], 4)
				if !ok {
					o.Fail("offset %s is not provably absolute: %s", core.ExprStr(call.Args[0]), why)
				}
			})
		}
	}
	c.Check(rule, "pdf.(*Reader).findXRef/return", "findXRef returns the startxref value rebased by headerOffset and range-checks it against size-headerOffset", func(o *core.Ob) {
		fx := c.Prog.Func("pdf", "(*Reader).findXRef")
		g := fx.Graph()
		n := 0
		for _, r := range g.Returns() {
			rs := r.AST.(*ast.ReturnStmt)
			if len(rs.Results) != 2 || !core.IsNil(fx.Info(), rs.Results[1]) {
				continue
			}
			n++
			o.At(fx.Site(rs, "success return"))
			if ok, why := absoluteOffset(c, fx, rs.Results[0], 3); !ok {
				o.Fail("findXRef's result is not rebased: %s", why)
			}
		}
		o.Require(n >= 1, "findXRef has no success return")
		// range check mentions headerOffset
		has, anyRange := false, false
		// comparisons wherever they are evaluated (a condition, or a boolean local that names it)
		ast.Inspect(fx.Decl.Body, func(n ast.Node) bool {
			be, ok := n.(*ast.BinaryExpr)
			if !ok {
				return true
			}
			switch be.Op {
			case token.LSS, token.LEQ, token.GTR, token.GEQ:
			default:
				return true
			}
			if _, isK := core.IntConst(fx.Info(), be.Y); isK {
				return true
			}
			anyRange = true
			if mentionsHeaderOffset(fx, be, 2) {
				has = true
			}
			return true
		})
		if !has && !anyRange {
			o.Unrec("no range check of the startxref value was found in findXRef")
		} else {
			o.Require(has, "the startxref range check does not take headerOffset into account")
		}
	})
	c.Check(rule, "pdf.(*Reader).readXRef/prev-range", "the /Prev range check takes headerOffset into account", func(o *core.Ob) {
		fn := c.Prog.Func("pdf", "(*Reader).readXRef")
		g := fn.Graph()
		info := fn.Info()
		// the /Prev value: locals that hold dict["Prev"] or its Integer form
		prevObjs := map[types.Object]bool{}
		isPrevLookup := func(e ast.Expr) bool {
			if ta, ok := ast.Unparen(e).(*ast.TypeAssertExpr); ok {
				e = ta.X
			}
			if ix, ok := ast.Unparen(e).(*ast.IndexExpr); ok {
				k, isK := core.StringConst(info, ix.Index)
				return isK && k == "Prev"
			}
			if id, ok := ast.Unparen(e).(*ast.Ident); ok {
				return prevObjs[info.ObjectOf(id)]
			}
			return false
		}
		for round := 0; round < 3; round++ {
			for _, v := range g.Vs {
				as, ok := v.AST.(*ast.AssignStmt)
				if !ok || len(as.Rhs) != 1 || !isPrevLookup(as.Rhs[0]) {
					continue
				}
				if obj := core.ObjOf(info, as.Lhs[0]); obj != nil {
					prevObjs[obj] = true
				}
			}
		}
		// legacy name
		ast.Inspect(fn.Decl.Body, func(n ast.Node) bool {
			if id, ok := n.(*ast.Ident); ok && id.Name == "prevStart" {
				if obj := info.ObjectOf(id); obj != nil {
					prevObjs[obj] = true
				}
			}
			return true
		})
		mentionsPrevVal := func(e ast.Expr) bool {
			found := false
			ast.Inspect(e, func(n ast.Node) bool {
				if id, ok := n.(*ast.Ident); ok && prevObjs[info.ObjectOf(id)] {
					found = true
				}
				return !found
			})
			return found
		}
		has, anyCmp := false, false
		ast.Inspect(fn.Decl.Body, func(n ast.Node) bool {
			be, ok := n.(*ast.BinaryExpr)
			if !ok {
				return true
			}
			switch be.Op {
			case token.LSS, token.LEQ, token.GTR, token.GEQ:
			default:
				return true
			}
			if !mentionsPrevVal(be) {
				return true
			}
			// an upper bound on the value (a comparison with something other than a constant)
			if _, isK := core.IntConst(info, be.Y); isK {
				return true
			}
			if _, isK := core.IntConst(info, be.X); isK {
				return true
			}
			anyCmp = true
			if mentionsHeaderOffset(fn, be, 2) {
				has = true
				o.At(fn.Site(be, "range check"))
			}
			return true
		})
		if !has && !anyCmp {
			o.Unrec("no comparison of the /Prev value with the file size was found")
			return
		}
		o.Require(has, "no range check of /Prev against size-headerOffset found")
	})
}

func ruleGetGuards(c *core.Ctx) {
	const rule = "C04-R4"
	fn := c.Prog.Func("pdf", "(*Reader).get")
	g := fn.Graph()
	info := fn.Info()
	reads := append(callVertices(g, "pdf.(*Reader).scannerFrom", "pdf.getFromObjStm"), callVerticesSuffix(g, ".ReadIndirectObject")...)
	c.Floor(rule, 5)
	for i, cv := range reads {
		cv := cv
		c.Check(rule, "pdf.(*Reader).get/read#"+itoa(i), "an object is read only where the xref entry is in use and its generation equals the reference's generation (free, absent and generation-mismatched references are null)", func(o *core.Ob) {
			o.At(fn.Site(cv.Call, cv.Key))
			free := g.GuardedBy(cv.V, func(a core.Atom) bool {
				_, ok := a.HoldsCall(info, true, "pdf.(*xRefEntry).IsFree")
				return ok
			})
			if !free {
				o.Fail("read is reachable without passing the !entry.IsFree() edge")
			}
			gen := g.GuardedBy(cv.V, func(a core.Atom) bool {
				cmp, ok := a.AsCmp()
				if !ok || cmp.Op != token.EQL {
					return false
				}
				_, ln, lok := selName(cmp.L)
				ck := func(e ast.Expr) bool {
					call, ok := ast.Unparen(e).(*ast.CallExpr)
					return ok && core.CalleeKey(info, call) == "pdf.Reference.Generation"
				}
				if lok && ln == "Generation" && ck(cmp.R) {
					return true
				}
				_, rn, rok := selName(cmp.R)
				return rok && rn == "Generation" && ck(cmp.L)
			})
			if !gen {
				o.Fail("read is reachable without passing the edge where entry.Generation == ref.Generation()")
			}
		})
	}
	c.Check(rule, "pdf.(*Reader).get/header", "the object found at the xref offset is returned only if its own header equals the requested reference", func(o *core.Ob) {
		rio := callVerticesSuffix(g, ".ReadIndirectObject")
		if len(rio) != 1 {
			core.Undecided("expected one ReadIndirectObject call")
		}
		for _, r := range g.Returns() {
			rs := r.AST.(*ast.ReturnStmt)
			if len(rs.Results) != 2 || !core.IsNil(info, rs.Results[1]) || core.IsNil(info, rs.Results[0]) {
				continue
			}
			if !g.PathExists(rio[0].V, r, nil) {
				continue
			}
			o.At(fn.Site(rs, "returns parsed object"))
			hdr := func(a core.Atom) bool {
				cmp, ok := a.AsCmp()
				if !ok || cmp.Op != token.EQL {
					return false
				}
				lt, rt := info.TypeOf(cmp.L), info.TypeOf(cmp.R)
				return lt != nil && rt != nil && core.IsNamed(lt, "pdf", "Reference") && core.IsNamed(rt, "pdf", "Reference")
			}
			ok := g.GuardedBy(r, hdr)
			if !ok {
				// the object may reach the return through a copy made earlier
				// (a helper folded in): the value parsed by ReadIndirectObject
				// must have been copied only behind the header comparison
				ok = true
				parsed := false
				for _, c1 := range valueCases(g, r, rs.Results[0], 1) {
					fromRIO := false
					if c1.V == rio[0].V {
						fromRIO = true
					} else if _, isID := ast.Unparen(c1.Expr).(*ast.Ident); isID {
						for _, c2 := range valueCases(g, c1.V, c1.Expr, 1) {
							if c2.V == rio[0].V {
								fromRIO = true
							}
						}
					}
					if !fromRIO {
						continue
					}
					parsed = true
					if !g.GuardedBy(c1.V, hdr) {
						ok = false
					}
				}
				if !parsed {
					ok = false
				}
			}
			if !ok {
				o.Fail("object is returned without comparing its header with the reference")
			}
		}
	})
	c.Check(rule, "pdf.(*xRefEntry).IsFree", "a missing (nil) xref entry counts as free", func(o *core.Ob) {
		f := c.Prog.Func("pdf", "(*xRefEntry).IsFree")
		recv := f.Decl.Recv.List[0].Names[0]
		robj := f.Info().ObjectOf(recv)
		gg := f.Graph()
		o.At(f.Site(f.Decl, ""))
		// some return whose value is true when receiver == nil: the result expression mentions `recv == nil`
		// or a branch on recv == nil leads to return true
		ok := false
		ast.Inspect(f.Decl.Body, func(n ast.Node) bool {
			if be, isBin := n.(*ast.BinaryExpr); isBin && be.Op == token.EQL {
				if core.ObjOf(f.Info(), be.X) == robj && core.IsNil(f.Info(), be.Y) {
					ok = true
				}
			}
			return true
		})
		_ = gg
		o.Require(ok, "IsFree does not test the receiver for nil")
	})
}

func ruleStreamLength(c *core.Ctx) {
	const rule = "C04-R5"
	fn := c.Prog.Func("pdf", "(*scanner).ReadStreamData")
	g := fn.Graph()
	info := fn.Info()
	c.Check(rule, "pdf.(*scanner).ReadStreamData/declared", "the declared /Length is used as the stream extent only on the edge where an endstream keyword was verified behind it", func(o *core.Ob) {
		declared := localVar(fn, "declared", 0)
		n := 0
		for _, v := range g.Vs {
			as, ok := v.AST.(*ast.AssignStmt)
			if !ok || len(as.Rhs) != 1 {
				continue
			}
			if !core.Mentions(info, as.Rhs[0], declared) || core.ObjOf(info, as.Lhs[0]) == declared {
				continue
			}
			if _, isProbe := core.IsCallTo(info, as.Rhs[0], "pdf.endstreamAt"); isProbe {
				continue // the verification itself
			}
			n++
			o.At(fn.Site(as, "extent := declared"))
			ok2 := g.GuardedBy(v, func(a core.Atom) bool {
				if call, ok := a.HoldsCall(info, false, "pdf.endstreamAt"); ok {
					return anyArgMentions(info, call, declared)
				}
				// or a boolean that is only ever false or the result of endstreamAt(start+declared)
				id, ok := ast.Unparen(a.Expr).(*ast.Ident)
				if !ok || a.Neg || a.Tag != nil {
					return false
				}
				return isEndstreamFlag(fn, info.ObjectOf(id), declared)
			})
			if !ok2 {
				// the value may be stored first and used only where the
				// verification succeeded (l := declared; if !trusted { l = recovered }):
				// every use this assignment reaches must lie behind the verification
				if lobj := core.ObjOf(info, as.Lhs[0]); lobj != nil {
					pred := func(a core.Atom) bool {
						if call, ok := a.HoldsCall(info, false, "pdf.endstreamAt"); ok {
							return anyArgMentions(info, call, declared)
						}
						id, ok := ast.Unparen(a.Expr).(*ast.Ident)
						if !ok || a.Neg || a.Tag != nil {
							return false
						}
						return isEndstreamFlag(fn, info.ObjectOf(id), declared)
					}
					var others []*core.V
					for _, d := range defVertices(g, lobj) {
						if d != v {
							others = append(others, d)
						}
					}
					uses, allOK := 0, true
					for u := range g.ReachFrom(v, false, core.AvoidVs(others...)) {
						if u.AST == nil || u == v || !core.Mentions(info, u.AST, lobj) {
							continue
						}
						isDef := false
						for _, d := range others {
							if d == u {
								isDef = true
							}
						}
						if isDef {
							continue
						}
						uses++
						good := false
						for _, a := range append(g.DominatingAtoms(u), atomsBetween(g, v, u, others)...) {
							if pred(a) {
								good = true
							}
						}
						if !good {
							allOK = false
						}
					}
					if uses > 0 && allOK {
						ok2 = true
					}
				}
			}
			if !ok2 {
				o.FailAt(fn.Site(as, ""), "declared length is trusted without endstreamAt(start+declared)")
			}
		}
		// uses as Discard argument etc. flow through l; also direct uses
		o.Require(n >= 1, "no use of the declared length found")
	})
	c.Check(rule, "pdf.(*scanner).ReadStreamData/declared-domain", "every non-negative /Length reaches the endstream verification: the value read from the dictionary is kept for all n >= 0 (0 is the length of an empty stream), and the verification runs for every kept value", func(o *core.Ob) {
		// n, err := s.getInt(lengthObj)
		var nObj, dObj types.Object
		var nID *ast.Ident
		for _, v := range g.Vs {
			as, ok := v.AST.(*ast.AssignStmt)
			if !ok || len(as.Lhs) != 2 || len(as.Rhs) != 1 {
				continue
			}
			call, ok := ast.Unparen(as.Rhs[0]).(*ast.CallExpr)
			if !ok {
				continue
			}
			if _, name, ok := selName(call.Fun); !ok || name != "getInt" {
				continue
			}
			if id, ok := as.Lhs[0].(*ast.Ident); ok && id.Name != "_" {
				nObj, nID = info.ObjectOf(id), id
				o.At(fn.Site(as, "the declared length is read"))
			}
		}
		probes := callVertices(g, "pdf.endstreamAt")
		if !o.Shape(nObj != nil && len(probes) == 1 && len(probes[0].Call.Args) == 2, "the read of /Length (getInt) and the single endstreamAt probe were not found") {
			return
		}
		zero := &ast.BasicLit{Kind: token.INT, Value: "0"}
		mentions := func(a core.Atom, obj types.Object) bool {
			return core.Mentions(info, a.Expr, obj) || (a.Tag != nil && core.Mentions(info, a.Tag, obj))
		}
		check := func(at *core.V, obj types.Object, id *ast.Ident, what string) {
			if b, isB := obj.Type().Underlying().(*types.Basic); !isB || b.Info()&types.IsInteger == 0 {
				o.Unrec("%s: the declared length is carried in %s, which is not an integer (a struct with a validity flag?): for which lengths the step runs is not decided", what, id.Name)
				return
			}
			var atoms []core.Atom
			for _, a := range g.DominatingAtoms(at) {
				if mentions(a, obj) {
					atoms = append(atoms, a)
				}
			}
			if len(atoms) == 0 {
				return
			}
			pre := core.Atom{Expr: &ast.BinaryExpr{X: id, Op: token.GEQ, Y: zero}}
			holds, counter, decided := c.Prog.Implies(core.Formula{Fn: fn, Atoms: []core.Atom{pre}}, core.Formula{Fn: fn, Atoms: atoms})
			if !decided {
				o.Unrec("the condition on %s at %s was not decided", id.Name, c.Prog.Pos(at.AST.Pos()))
				return
			}
			if !holds {
				o.FailAt(fn.Site(at.AST, ""), "%s: a non-negative length is excluded here (%s)", what, counter)
			}
		}
		// the probe uses n directly, or a variable that holds a copy of n
		arg := probes[0].Call.Args[1]
		if core.Mentions(info, arg, nObj) {
			check(probes[0].V, nObj, nID, "the endstream verification")
			return
		}
		var dID *ast.Ident
		for _, v := range g.Vs {
			as, ok := v.AST.(*ast.AssignStmt)
			if !ok || len(as.Lhs) != len(as.Rhs) {
				continue
			}
			for i, r := range as.Rhs {
				id, isID := as.Lhs[i].(*ast.Ident)
				if !isID || !core.Mentions(info, r, nObj) || !core.Mentions(info, arg, info.ObjectOf(id)) {
					continue
				}
				dObj, dID = info.ObjectOf(id), id
				o.At(fn.Site(as, "the declared length is kept"))
				check(v, nObj, nID, "keeping the declared length")
			}
		}
		if !o.Shape(dObj != nil, "the variable that carries the declared length to endstreamAt was not found") {
			return
		}
		check(probes[0].V, dObj, dID, "the endstream verification")
	})
	c.Check(rule, "pdf.(*scanner).ReadStreamData/recover", "when /Length is unusable the extent is recovered by searching EOL+endstream and the EOL is not part of the data", func(o *core.Ob) {
		find := callVerticesSuffix(g, ".Find")
		if len(find) != 1 {
			core.Undecided("expected one Find call, found %d", len(find))
		}
		o.At(fn.Site(find[0].Call, "Find"))
		arg := find[0].Call.Args[0]
		obj := core.ObjOf(info, arg)
		if obj == nil || obj.Name() != "endstreamPat" {
			o.Fail("recovery does not search for endstreamPat")
		}
		// the Find must be on the edge where endstreamAt failed or no length declared
		ok := g.GuardedBy(find[0].V, func(a core.Atom) bool {
			if id, isID := ast.Unparen(a.Expr).(*ast.Ident); isID && a.Neg && a.Tag == nil {
				return isEndstreamFlag(fn, info.ObjectOf(id), localVar(fn, "declared", 0))
			}
			// negation of a conjunction: recorded as compound atom with Neg
			found := false
			ast.Inspect(a.Expr, func(n ast.Node) bool {
				if call, ok := n.(*ast.CallExpr); ok && core.CalleeKey(info, call) == "pdf.endstreamAt" {
					found = true
				}
				return true
			})
			return found && a.Neg
		})
		o.Require(ok, "the recovery search is not the alternative of the endstreamAt test")
		// pattern: one EOL byte then "endstream"
		_, init, _ := c.Prog.Var("pdf", "endstreamPat")
		call, isCall := ast.Unparen(init).(*ast.CallExpr)
		if !isCall || core.CalleeKey(c.Prog.Pkg("pdf").TypesInfo, call) != "regexp.MustCompile" {
			core.Undecided("endstreamPat is not regexp.MustCompile(const)")
		}
		pat, _ := core.StringConst(c.Prog.Pkg("pdf").TypesInfo, call.Args[0])
		re, err := syntax.Parse(pat, syntax.Perl)
		if err != nil {
			o.Fail("endstreamPat does not parse: %v", err)
			return
		}
		re = re.Simplify()
		o.Fact("endstreamPat = %q parsed as %s", pat, re.String())
		okPat := re.Op == syntax.OpConcat && len(re.Sub) == 2 &&
			re.Sub[0].Op == syntax.OpCharClass && runesAre(re.Sub[0].Rune, '\n', '\r') &&
			re.Sub[1].Op == syntax.OpLiteral && string(re.Sub[1].Rune) == "endstream" && re.Sub[1].Flags&syntax.FoldCase == 0
		o.Require(okPat, "endstreamPat %q is not exactly one EOL byte followed by the keyword endstream", pat)
		// trimTrailingEOL follows
		tt := callVertices(g, "pdf.trimTrailingEOL")
		if len(tt) == 0 && c.Prog.FuncOpt("pdf", "trimTrailingEOL") == nil {
			// the helper was folded into this function: its probe (a ReadAt
			// into a small local array) must follow the search
			for _, cs := range callVerticesSuffix(g, ".ReadAt") {
				if len(cs.Call.Args) == 2 {
					e := cs.Call.Args[0]
					if sl, ok := ast.Unparen(e).(*ast.SliceExpr); ok {
						e = sl.X
					}
					if obj := core.ObjOf(info, e); obj != nil {
						if arr, ok := obj.Type().Underlying().(*types.Array); ok && arr.Len() <= 4 && g.Dominates(find[0].V, cs.V) {
							tt = append(tt, cs)
						}
					}
				}
			}
		}
		o.Require(len(tt) == 1 && g.Dominates(find[0].V, tt[0].V), "the recovered extent is not passed through trimTrailingEOL")
	})
	c.Check(rule, "pdf.(*scanner).ReadStreamData/eol", "the EOL after the stream keyword is LF, CRLF or (leniently) CR and is consumed with the right number of bytes", func(o *core.Ob) {
		// buf := PeekN(2); three branches consuming 1,2,1
		var adv []int64
		for _, v := range g.Vs {
			switch s := v.AST.(type) {
			case *ast.IncDecStmt:
				if _, nm, ok := selName(s.X); ok && nm == "pos" && s.Tok == token.INC {
					adv = append(adv, 1)
					o.At(fn.Site(s, "pos++"))
				}
			case *ast.AssignStmt:
				if s.Tok == token.ADD_ASSIGN {
					if _, nm, ok := selName(s.Lhs[0]); ok && nm == "pos" {
						if k, ok := core.IntConst(info, s.Rhs[0]); ok {
							adv = append(adv, k)
							o.At(fn.Site(s, "pos += k"))
						}
					}
				}
			}
		}
		one, two := 0, 0
		for _, k := range adv {
			if k == 1 {
				one++
			}
			if k == 2 {
				two++
			}
		}
		o.Shape(two == 1 && one >= 1, "expected one 2-byte (CRLF) and at least one 1-byte (LF) EOL consumption after 'stream', got %v", adv)
		// the 2-byte advance is guarded by buf[0]=='\r' && buf[1]=='\n'
		for _, v := range g.Vs {
			if s, ok := v.AST.(*ast.AssignStmt); ok && s.Tok == token.ADD_ASSIGN {
				if _, nm, ok := selName(s.Lhs[0]); ok && nm == "pos" {
					if k, _ := core.IntConst(info, s.Rhs[0]); k == 2 {
						cr := g.GuardedBy(v, func(a core.Atom) bool {
							// bytes.HasPrefix(buf, []byte("\r\n"))
							if call, isCall := ast.Unparen(a.Expr).(*ast.CallExpr); isCall && !a.Neg && a.Tag == nil && len(call.Args) == 2 {
								if key := core.CalleeKey(info, call); key == "bytes.HasPrefix" || key == "strings.HasPrefix" {
									if str, isS := constBytes(info, call.Args[1]); isS && str == "\r\n" {
										return true
									}
								}
							}
							cmp, ok := a.AsCmp()
							if !ok || cmp.Op != token.EQL {
								return false
							}
							k, ok := core.IntConst(info, cmp.R)
							return ok && k == '\n'
						})
						o.Require(cr, "the 2-byte EOL consumption is not guarded by a test for LF in second position")
					}
				}
			}
		}
	})
	c.Check(rule, "pdf.(*scanner).ReadStreamData/drop-length", "the /Length entry is removed from the dictionary on every success path (the recovered extent is the only copy)", func(o *core.Ob) {
		var del *core.V
		for _, v := range g.Vs {
			if v.AST == nil {
				continue
			}
			for _, cs := range core.CallsIn(info, v.AST, false) {
				if cs.Key == "builtin.delete" && len(cs.Call.Args) == 2 {
					if k, ok := core.StringConst(info, cs.Call.Args[1]); ok && k == "Length" {
						del = v
						o.At(fn.Site(cs.Call, "delete(dict, Length)"))
					}
				}
			}
		}
		if del == nil {
			o.Count(1)
			o.Fail("no delete(dict, \"Length\")")
			return
		}
		for _, r := range g.Returns() {
			rs := r.AST.(*ast.ReturnStmt)
			if len(rs.Results) == 2 && core.IsNil(info, rs.Results[1]) {
				o.Count(1)
				if !g.Dominates(del, r) {
					o.FailAt(fn.Site(rs, ""), "success return not preceded by delete(dict, \"Length\")")
				}
			}
		}
	})
}

func runesAre(rs []rune, want ...rune) bool {
	// char class as ranges lo,hi pairs
	set := map[rune]bool{}
	for i := 0; i+1 < len(rs); i += 2 {
		for r := rs[i]; r <= rs[i+1]; r++ {
			set[r] = true
			if len(set) > 16 {
				return false
			}
		}
	}
	if len(set) != len(want) {
		return false
	}
	for _, w := range want {
		if !set[w] {
			return false
		}
	}
	return true
}

func ruleC04Lexical(c *core.Ctx) {
	const rule = "C04-R6"
	ruleClassTable(c, rule, "pdf")
	c.Check(rule, "pdf.(*scanner).SkipWhiteSpace", "white space is exactly the space class and a comment runs from % to the next CR or LF", func(o *core.Ob) {
		fn := c.Prog.Func("pdf", "(*scanner).SkipWhiteSpace")
		var lit *ast.FuncLit
		ast.Inspect(fn.Decl, func(n ast.Node) bool {
			if l, ok := n.(*ast.FuncLit); ok && lit == nil {
				lit = l
			}
			return true
		})
		if lit == nil || len(lit.Type.Params.List) != 1 {
			core.Undecided("SkipWhiteSpace closure not found")
		}
		g := fn.LitGraph(lit)
		b := fn.Info().ObjectOf(lit.Type.Params.List[0].Names[0])
		isC := localVar(fn, "isComment", 0)
		env := byteEnvFor(c.Prog, fn, b)
		o.At(fn.Site(lit, "byte predicate"))
		// bytes that end a comment: reach `isComment = false`
		// (the value assigned may be computed from the byte: isComment = b != CR && b != LF)
		inComment := func(v *core.V) bool {
			return g.GuardedBy(v, func(a core.Atom) bool {
				return !a.Neg && a.Tag == nil && core.ObjOf(fn.Info(), a.Expr) == isC
			})
		}
		endC := env.ReachSetState(g, []*core.V{g.Entry}, func(v *core.V, st *core.ByteState) bool {
			as, ok := v.AST.(*ast.AssignStmt)
			if !ok || core.ObjOf(fn.Info(), as.Lhs[0]) != isC {
				return false
			}
			if cv := core.ConstOf(fn.Info(), as.Rhs[0]); cv != nil {
				return cv.String() == "false"
			}
			val, known := st.Bool(as.Rhs[0])
			return known && !val
		}, nil)
		o.Count(256)
		if !endC.Equal(core.BytesOf("\r\n")) {
			o.Fail("a comment ends at %s, want {CR, LF}", endC.String())
		}
		startC := env.ReachSetState(g, []*core.V{g.Entry}, func(v *core.V, st *core.ByteState) bool {
			as, ok := v.AST.(*ast.AssignStmt)
			if !ok || core.ObjOf(fn.Info(), as.Lhs[0]) != isC || inComment(v) {
				return false // an assignment made inside a comment keeps or ends it, it does not start one
			}
			if cv := core.ConstOf(fn.Info(), as.Rhs[0]); cv != nil {
				return cv.String() == "true"
			}
			val, known := st.Bool(as.Rhs[0])
			return known && val
		}, nil)
		if !startC.Equal(core.BytesOf("%")) {
			o.Fail("a comment starts at %s, want {%%}", startC.String())
		}
		// outside comments: continue iff class == space: the return expression is class[b] == space
		okRet := false
		ast.Inspect(lit.Body, func(n ast.Node) bool {
			if rs, ok := n.(*ast.ReturnStmt); ok && len(rs.Results) == 1 {
				var set core.ByteSet
				all := true
				for v := 0; v < 256; v++ {
					val, known := env.EvalBool(rs.Results[0], v)
					if !known {
						all = false
						break
					}
					set[v] = val
				}
				if all && set.Len() > 0 && set.Len() < 256 {
					want := core.BytesOf("\x00\t\n\f\r ")
					if set.Equal(want) {
						okRet = true
					} else {
						o.Fail("white space skipped is %s, want %s", set.String(), want.String())
					}
				}
			}
			return true
		})
		o.Require(okRet, "no `return class[b] == space` style predicate found")
	})
	c.Check(rule, "pdf.decodeXRefStream/types", "xref stream entries: a zero-width type field defaults to type 1, and types 0 (free), 1 (in use) and 2 (compressed) are handled", func(o *core.Ob) {
		fn := c.Prog.Func("pdf", "decodeXRefStream")
		g := fn.Graph()
		info := fn.Info()
		tp := localVar(fn, "tp", 0)
		// default
		okDef := false
		for _, dv := range defVertices(g, tp) {
			as, ok := dv.AST.(*ast.AssignStmt)
			if !ok || as.Tok != token.ASSIGN {
				continue
			}
			if len(as.Lhs) != 1 {
				continue // a tuple assignment is the result of the field decoder, not the default
			}
			if k, ok := core.IntConst(info, as.Rhs[0]); ok {
				widthZero := g.GuardedBy(dv, func(a core.Atom) bool {
					cmp, ok := a.AsCmp()
					if !ok || cmp.Op != token.EQL {
						return false
					}
					k, ok := core.IntConst(info, cmp.R)
					return ok && k == 0
				})
				if !widthZero {
					continue
				}
				o.At(fn.Site(as, "default type"))
				if k != 1 {
					o.Fail("default entry type is %d, ISO 32000-2 7.5.8.2 says 1", k)
				}
				okDef = true
			}
		}
		o.Require(okDef, "no `if w0 == 0 { tp = 1 }` default found")
		// which entry types reach which store: the graph is explored for every
		// value of the type variable, branches on it (switch cases, if chains,
		// merged case lists) being decided by the value
		env := byteEnvFor(c.Prog, fn, tp)
		var starts []*core.V
		tpDefs := defVertices(g, tp)
		for _, dv := range tpDefs {
			for _, e := range dv.Succs {
				starts = append(starts, e.To)
			}
		}
		isDef := func(v *core.V) bool {
			for _, dv := range tpDefs {
				if dv == v {
					return true
				}
			}
			return false
		}
		m := paramObj(fn, "xref")
		stores := expandStores(g, mapStores(g, m))
		o.Require(len(stores) >= 1, "no store into the table found")
		handled := map[int64]bool{}
		o.Count(3)
		for _, st := range stores {
			st := st
			kinds := env.ReachSet(g, starts, func(v *core.V) bool { return v == st.V }, isDef)
			fields := compositeFields(info, st.Value)
			for k := 0; k < 256; k++ {
				if !kinds[k] {
					continue
				}
				if k > 2 {
					o.FailAt(fn.Site(st.Stmt, ""), "an entry is stored for the unknown entry type %d (ISO 32000-2 7.5.8.3: unknown types are ignored)", k)
					break
				}
				handled[int64(k)] = true
				o.At(fn.Site(st.Stmt, "entry for type "+strconv.Itoa(k)))
				// the value of a field for this type: as written, or chosen earlier under this type
				field := func(name string) string {
					e := fields[name]
					if e == nil {
						return ""
					}
					var vals []string
					for _, vc := range copyCases(g, st.V, e) {
						if vc.V != st.V {
							// the definition whose value is seen at the store, for this type
							var defs []*core.V
							if obj := core.ObjOf(info, e); obj != nil {
								defs = defVertices(g, obj)
							}
							if !liveDefs(env, g, starts, st.V, defs)[k][vc.V] {
								continue
							}
						}
						vals = append(vals, core.ExprStr(vc.Expr))
					}
					if len(vals) != 1 {
						return strings.Join(vals, "|")
					}
					return vals[0]
				}
				switch k {
				case 0:
					if p := field("Pos"); p != "-1" && p != "int64(-1)" {
						o.Fail("free entry is stored with Pos %s, want -1", p)
					}
				case 1:
					if field("Pos") != "a" || !strings.Contains(field("Generation"), "b") {
						o.Fail("in-use entry must take Pos from field 2 and Generation from field 3, got Pos=%s Generation=%s", field("Pos"), field("Generation"))
					}
				case 2:
					if !strings.Contains(field("InStream"), "a") || field("Pos") != "b" {
						o.Fail("compressed entry must take the stream number from field 2 and the index from field 3")
					}
				}
			}
		}
		for _, k := range []int64{0, 1, 2} {
			if !handled[k] {
				o.Fail("no entry is stored for entry type %d", k)
			}
		}
	})
	c.Check(rule, "pdf.decodeXRefSection/kinds", "classic xref entries: 'n' stores offset and generation, 'f' stores a free entry", func(o *core.Ob) {
		fn := c.Prog.Func("pdf", "decodeXRefSection")
		g := fn.Graph()
		info := fn.Info()
		m := paramObj(fn, "xref")
		seen := map[int64]bool{}
		// the kind byte: byte 17 of the 20-byte entry, directly or through a local
		var kindVar types.Object
		isKind := func(e ast.Expr) bool {
			ix, ok := ast.Unparen(e).(*ast.IndexExpr)
			if !ok {
				return false
			}
			k, isK := core.IntConst(info, ix.Index)
			return isK && k == 17
		}
		kindField := "" // the kind kept in a field of a local struct (line.kind = buf[17])
		ast.Inspect(fn.Decl.Body, func(n ast.Node) bool {
			if as, ok := n.(*ast.AssignStmt); ok && len(as.Lhs) == 1 && len(as.Rhs) == 1 && isKind(as.Rhs[0]) {
				kindVar = core.ObjOf(info, as.Lhs[0])
				if _, isSel := ast.Unparen(as.Lhs[0]).(*ast.SelectorExpr); isSel {
					kindField = strings.ReplaceAll(core.ExprStr(as.Lhs[0]), " ", "")
				}
			}
			return true
		})
		env := byteEnvFor(c.Prog, fn, kindVar)
		env.Alias = func(e ast.Expr) bool {
			if isKind(e) {
				return true
			}
			if _, isSel := ast.Unparen(e).(*ast.SelectorExpr); isSel && kindField != "" {
				return strings.ReplaceAll(core.ExprStr(e), " ", "") == kindField
			}
			return false
		}
		// start after the last write to the kind byte (the 65536 repair rewrites it)
		starts := []*core.V{g.Entry}
		var kindWrites []*core.V
		for _, v := range g.Vs {
			if as, ok := v.AST.(*ast.AssignStmt); ok {
				for _, l := range as.Lhs {
					if isKind(l) || (kindVar != nil && core.ObjOf(info, l) == kindVar) {
						kindWrites = append(kindWrites, v)
					}
				}
			}
		}
		if len(kindWrites) > 0 {
			starts = nil
			for _, kw := range kindWrites {
				for _, e := range kw.Succs {
					starts = append(starts, e.To)
				}
			}
			// and the paths that never write it
			for _, e := range g.Entry.Succs {
				starts = append(starts, e.To)
			}
		}
		isKW := func(v *core.V) bool {
			for _, kw := range kindWrites {
				if kw == v {
					return true
				}
			}
			return false
		}
		// the parsed numbers: results of strconv.ParseInt/ParseUint applied to a constant
		// slice of the 20-byte entry, told apart by the bytes they are parsed from
		offV, genV := map[types.Object]bool{}, map[types.Object]bool{}
		var slices []string
		parseCalls := 0
		ast.Inspect(fn.Decl.Body, func(n ast.Node) bool {
			as, ok := n.(*ast.AssignStmt)
			if !ok || len(as.Rhs) != 1 || len(as.Lhs) != 2 {
				return true
			}
			call, ok := ast.Unparen(as.Rhs[0]).(*ast.CallExpr)
			if !ok || len(call.Args) == 0 {
				return true
			}
			if k := core.CalleeKey(info, call); k != "strconv.ParseInt" && k != "strconv.ParseUint" {
				return true
			}
			parseCalls++
			arg := ast.Unparen(call.Args[0])
			if conv, isConv := arg.(*ast.CallExpr); isConv && len(conv.Args) == 1 {
				if tv, isT := info.Types[conv.Fun]; isT && tv.IsType() {
					arg = ast.Unparen(conv.Args[0])
				}
			}
			sl, ok := arg.(*ast.SliceExpr)
			if !ok {
				return true
			}
			lo, hi := int64(0), int64(-1)
			okLo, okHi := true, false
			if sl.Low != nil {
				lo, okLo = core.IntConst(info, sl.Low)
			}
			if sl.High != nil {
				hi, okHi = core.IntConst(info, sl.High)
			}
			if !okLo || !okHi {
				return true
			}
			slices = append(slices, itoa(int(lo))+":"+itoa(int(hi)))
			if obj := core.ObjOf(info, as.Lhs[0]); obj != nil {
				switch {
				case lo == 0 && hi == 10:
					offV[obj] = true
				case lo == 11 && hi == 16:
					genV[obj] = true
				}
			}
			return true
		})
		for round := 0; round < 3; round++ {
			ast.Inspect(fn.Decl.Body, func(n ast.Node) bool {
				as, ok := n.(*ast.AssignStmt)
				if !ok || len(as.Lhs) != len(as.Rhs) {
					return true
				}
				for i, r := range as.Rhs {
					src := core.ObjOf(info, peelConv(info, r))
					dst := core.ObjOf(info, as.Lhs[i])
					if src == nil || dst == nil {
						continue
					}
					if _, isID := ast.Unparen(as.Lhs[i]).(*ast.Ident); !isID {
						continue
					}
					if offV[src] {
						offV[dst] = true
					}
					if genV[src] {
						genV[dst] = true
					}
				}
				return true
			})
		}
		mentionsVar := func(set map[types.Object]bool, e ast.Expr) bool {
			found := false
			ast.Inspect(e, func(n ast.Node) bool {
				if id, ok := n.(*ast.Ident); ok && set[info.ObjectOf(id)] {
					found = true
				}
				return true
			})
			return found
		}
		for _, st := range expandStores(g, mapStores(g, m)) {
			st := st
			kinds := env.ReachSet(g, starts, func(v *core.V) bool { return v == st.V }, isKW)
			fields := compositeFields(info, st.Value)
			for k := 0; k < 256; k++ {
				if !kinds[k] {
					continue
				}
				if k != 'f' && k != 'n' {
					o.FailAt(fn.Site(st.Stmt, ""), "store into xref outside the 'n'/'f' cases (kind byte %#02x)", k)
					break
				}
				o.At(fn.Site(st.Stmt, "entry kind "+string(rune(k))))
				seen[int64(k)] = true
				fieldExprs := map[string][]ast.Expr{}
				field := func(name string) string {
					e := fields[name]
					if e == nil {
						return ""
					}
					fieldExprs[name] = nil
					var vals []string
					for _, vc := range copyCases(g, st.V, e) {
						if vc.V != st.V {
							// the definition whose value is seen at the store, for this type
							var defs []*core.V
							if obj := core.ObjOf(info, e); obj != nil {
								defs = defVertices(g, obj)
							}
							if !liveDefs(env, g, starts, st.V, defs)[k][vc.V] {
								continue
							}
						}
						vals = append(vals, core.ExprStr(vc.Expr))
						fieldExprs[name] = append(fieldExprs[name], vc.Expr)
					}
					return strings.Join(vals, "|")
				}
				switch k {
				case 'f':
					if pos := field("Pos"); pos != "-1" {
						// the same constant under a name
						minus1 := len(fieldExprs["Pos"]) > 0
						for _, e := range fieldExprs["Pos"] {
							if k, isK := core.IntConst(info, e); !isK || k != -1 {
								minus1 = false
							}
						}
						if !minus1 {
							o.Fail("free entry stored with Pos %s", pos)
						}
					}
				case 'n':
					pos := field("Pos")
					all, anyConst := len(fieldExprs["Pos"]) > 0, false
					for _, e := range fieldExprs["Pos"] {
						if !offV[core.ObjOf(info, peelConv(info, e))] {
							all = false
						}
						if _, isK := core.IntConst(info, e); isK {
							anyConst = true
						}
					}
					if !all {
						if anyConst || pos == "" || mentionsAny(fieldExprs["Pos"], func(e ast.Expr) bool { return mentionsVar(genV, e) }) {
							o.Fail("in-use entry stored with Pos %s, want the parsed offset", pos)
						} else {
							o.Unrec("in-use entry stored with Pos %s: not traced to the number parsed from bytes 0..10", pos)
						}
					}
				}
				gen := field("Generation")
				if !mentionsAny(fieldExprs["Generation"], func(e ast.Expr) bool { return mentionsVar(genV, e) }) {
					allConst := true
					for _, e := range fieldExprs["Generation"] {
						if _, isK := core.IntConst(info, e); !isK && !mentionsVar(offV, e) {
							allConst = false
						}
					}
					if allConst {
						o.Fail("entry kind %c does not record the generation", rune(k))
					} else {
						o.Unrec("entry kind %c: the generation %s was not traced to the number parsed from bytes 11..16", rune(k), gen)
					}
				}
			}
		}
		o.Require(seen['f'] && seen['n'], "both entry kinds must be handled")
		// field positions: offset = buf[:10], generation = buf[11:16], kind = buf[17]
		if parseCalls == 0 {
			o.Unrec("no strconv.ParseInt/ParseUint call was found in decodeXRefSection or its helpers: how the entry is parsed is not located")
			return
		}
		o.Fact("entry field slices %v", slices)
		has := func(s string) bool {
			for _, x := range slices {
				if x == s {
					return true
				}
			}
			return false
		}
		o.Require(has("0:10") && has("11:16"), "offset must be parsed from bytes 0..10 and generation from bytes 11..16 of the 20-byte entry (7.5.4), got %v", slices)
	})
}

// compositeFields returns the field initialisers of &T{...} or T{...}.
func compositeFields(info *types.Info, e ast.Expr) map[string]ast.Expr {
	out := map[string]ast.Expr{}
	if e == nil {
		return out
	}
	e = ast.Unparen(e)
	if u, ok := e.(*ast.UnaryExpr); ok && u.Op == token.AND {
		e = u.X
	}
	cl, ok := e.(*ast.CompositeLit)
	if !ok {
		return out
	}
	var st *types.Struct
	if t := info.TypeOf(cl); t != nil {
		st, _ = t.Underlying().(*types.Struct)
	}
	for i, el := range cl.Elts {
		if kv, ok := el.(*ast.KeyValueExpr); ok {
			if id, ok := kv.Key.(*ast.Ident); ok {
				out[id.Name] = kv.Value
			}
		} else if st != nil && i < st.NumFields() {
			// positional form
			out[st.Field(i).Name()] = el
		}
	}
	return out
}

func ruleObjStmLookup(c *core.Ctx) {
	const rule = "C04-R7"
	c.Check(rule, "pdf.getFromObjStm", "a compressed object is located by its object number in the object stream's header, not by position alone", func(o *core.Ob) {
		fn := c.Prog.Func("pdf", "getFromObjStm")
		g := fn.Graph()
		info := fn.Info()
		number := paramObj(fn, "number")
		m := localVar(fn, "m", 0)
		n := 0
		for _, dv := range defVertices(g, m) {
			as, ok := dv.AST.(*ast.AssignStmt)
			if !ok || as.Tok != token.ASSIGN {
				continue
			}
			n++
			o.At(fn.Site(as, "index selected"))
			ok2 := g.GuardedBy(dv, func(a core.Atom) bool {
				cmp, ok := a.AsCmp()
				if !ok || cmp.Op != token.EQL {
					return false
				}
				return core.ObjOf(info, cmp.R) == number || core.ObjOf(info, cmp.L) == number
			})
			if !ok2 {
				o.Fail("the member index is chosen without comparing the header's object number with the requested number")
			}
		}
		o.Shape(n >= 1, "selection of the member index not found")
		// not found => error or null, never another object: ReadObject dominated by m >= 0
		for _, cv := range callVerticesSuffix(g, ".ReadObject") {
			o.At(fn.Site(cv.Call, "reads member"))
			ok := g.GuardedBy(cv.V, func(a core.Atom) bool {
				cmp, ok := a.AsCmp()
				if !ok {
					return false
				}
				if core.ObjOf(info, cmp.L) != m {
					return false
				}
				k, isK := core.IntConst(info, cmp.R)
				return isK && k == 0 && cmp.Op == token.GEQ
			})
			if !ok {
				o.Fail("member is read although no header entry matched")
			}
		}
	})
	c.Check(rule, "pdf.getFromObjStm/adjacent", "a member that starts exactly where the header table ends (no white space before a delimiter: distance 0) and every member further on is read: the guards between the distance computation and ReadObject hold for every distance >= 0", func(o *core.Ob) {
		fn := c.Prog.Func("pdf", "getFromObjStm")
		g := fn.Graph()
		info := fn.Info()
		discards := callVerticesSuffix(g, ".Discard")
		if len(discards) != 1 || len(discards[0].Call.Args) != 1 {
			core.Undecided("the single Discard call of getFromObjStm was not found")
		}
		argID, ok := ast.Unparen(discards[0].Call.Args[0]).(*ast.Ident)
		if !ok {
			core.Undecided("Discard argument is not a variable")
		}
		delta := info.ObjectOf(argID)
		defs := defVertices(g, delta)
		if len(defs) != 1 {
			core.Undecided("distance variable has %d definitions", len(defs))
		}
		r, ok := rhsFor(info, defs[0], delta)
		if !ok || r == nil {
			core.Undecided("distance definition not understood")
		}
		be, ok := ast.Unparen(r).(*ast.BinaryExpr)
		if !ok || be.Op != token.SUB || len(core.CallsTo(info, be.Y, false, "pdf.(*scanner).CurrentPos")) != 1 {
			core.Undecided("distance is not <offset> - CurrentPos(): %s", c.Prog.Src(r))
		}
		o.At(fn.Site(defs[0].AST, "distance to the member"))
		reads := callVerticesSuffix(g, ".ReadObject")
		if len(reads) == 0 {
			core.Undecided("ReadObject call not found")
		}
		for _, rd := range reads {
			o.Count(1)
			var atoms []core.Atom
			for _, a := range g.DominatingAtoms(rd.V) {
				if core.Mentions(info, a.Expr, delta) {
					atoms = append(atoms, a)
				}
			}
			legal := core.Formula{Fn: fn, Atoms: []core.Atom{{Expr: &ast.BinaryExpr{X: argID, Op: token.GEQ, Y: &ast.BasicLit{Kind: token.INT, Value: "0"}}}}}
			holds, counter, decided := c.Prog.Implies(legal, core.Formula{Fn: fn, Atoms: atoms})
			if !decided {
				core.Undecided("guards on the distance not decided: %s", counter)
			}
			if !holds {
				o.FailAt(fn.Site(rd.Call, ""), "%s: the member is not read for %s (guards: %s)", c.Prog.Pos(rd.Call.Pos()), counter, c.Prog.FormulaString(core.Formula{Atoms: atoms}))
			}
		}
	})
	c.Check(rule, "pdf.getObjStm/first", "member offsets are relative to /First and the header holds /N pairs", func(o *core.Ob) {
		fn := c.Prog.Func("pdf", "getObjStm")
		keys := core.DictKeysRead(fn.Info(), fn.Decl, "pdf", "Dict")
		o.Count(2)
		if len(keys["N"]) == 0 {
			o.Fail("getObjStm does not read /N")
		}
		if len(keys["First"]) == 0 {
			o.Fail("getObjStm does not read /First")
		}
		// offs + firstInt: a sum one of whose operands is the value of /First
		info := fn.Info()
		firstVars := map[types.Object]bool{}
		mentionsFirstKey := func(e ast.Expr) bool {
			hit := false
			ast.Inspect(e, func(n ast.Node) bool {
				if ix, ok := n.(*ast.IndexExpr); ok {
					if k, isK := core.StringConst(info, ix.Index); isK && k == "First" {
						hit = true
					}
				}
				if id, ok := n.(*ast.Ident); ok && firstVars[info.ObjectOf(id)] {
					hit = true
				}
				return !hit
			})
			return hit
		}
		for round := 0; round < 3; round++ {
			ast.Inspect(fn.Decl.Body, func(n ast.Node) bool {
				as, ok := n.(*ast.AssignStmt)
				if !ok {
					return true
				}
				for _, r := range as.Rhs {
					if mentionsFirstKey(r) {
						lid, isID := ast.Unparen(as.Lhs[0]).(*ast.Ident)
						if !isID {
							continue
						}
						if obj, isVar := info.ObjectOf(lid).(*types.Var); isVar && !obj.IsField() {
							if b, isB := obj.Type().Underlying().(*types.Basic); isB && b.Info()&types.IsInteger != 0 {
								firstVars[obj] = true
							}
						}
					}
				}
				return true
			})
		}
		found, handedOn := false, false
		ast.Inspect(fn.Decl.Body, func(n ast.Node) bool {
			switch x := n.(type) {
			case *ast.BinaryExpr:
				if x.Op == token.ADD {
					s := core.ExprStr(x)
					if strings.Contains(s, "offs") && strings.Contains(strings.ToLower(s), "first") {
						found = true
					}
					if mentionsFirstKey(x.X) != mentionsFirstKey(x.Y) {
						found = true
					}
				}
			case *ast.AssignStmt:
				if x.Tok == token.ADD_ASSIGN && len(x.Rhs) == 1 && mentionsFirstKey(x.Rhs[0]) {
					found = true
				}
			case *ast.CallExpr:
				if f := core.Callee(info, x); f != nil && f.Pkg() == fn.Obj.Pkg() && !f.Exported() {
					for _, a := range x.Args {
						if mentionsFirstKey(a) {
							handedOn = true
						}
					}
				}
			}
			return true
		})
		if os.Getenv("PDFVERIF_DEBUG_C04") != "" {
			for ob := range firstVars {
				fmt.Fprintf(os.Stderr, "firstVar %s\n", ob.Name())
			}
			fmt.Fprintf(os.Stderr, "found=%v handedOn=%v inlined=%d\n", found, handedOn, fn.InlinedCalls)
		}
		if !found && handedOn {
			o.Unrec("the value of /First is handed to a helper; where the member offsets are rebased is not followed")
		} else {
			o.Require(found, "member offsets are not rebased by /First")
		}
	})
}

// isEndstreamFlag: obj is a boolean whose definitions are the constant false
// and the result of endstreamAt(..., start+declared).
func isEndstreamFlag(fn *core.Func, obj types.Object, declared types.Object) bool {
	return isEndstreamFlagDepth(fn, obj, declared, 3)
}

// isEndstreamFlagDepth: every definition of the boolean obj is false, the
// result of endstreamAt for the declared length, a copy of such a flag (the
// result variable of a folded-in helper), or true under such a flag.
func isEndstreamFlagDepth(fn *core.Func, obj types.Object, declared types.Object, depth int) bool {
	if obj == nil || depth <= 0 {
		return false
	}
	info := fn.Info()
	g := fn.Graph()
	fromCall := false
	for _, d := range core.AssignsTo(info, fn.Decl, obj) {
		as, ok := d.(*ast.AssignStmt)
		if !ok {
			if vs, isVS := d.(*ast.ValueSpec); isVS && len(vs.Values) == 0 {
				continue // declared, zero value
			}
			return false
		}
		idx := -1
		for i, l := range as.Lhs {
			if core.ObjOf(info, l) == obj {
				idx = i
			}
		}
		if idx < 0 {
			return false
		}
		var rhs ast.Expr
		switch {
		case len(as.Rhs) == len(as.Lhs):
			rhs = as.Rhs[idx]
		case len(as.Rhs) == 1 && idx == 0:
			rhs = as.Rhs[0]
		default:
			return false
		}
		if cv := core.ConstOf(info, rhs); cv != nil && cv.String() == "false" {
			continue
		}
		if cv := core.ConstOf(info, rhs); cv != nil && cv.String() == "true" {
			// true under another flag of this kind
			v := g.VertexOf(as)
			under := v != nil && g.GuardedBy(v, func(a core.Atom) bool {
				id, isID := ast.Unparen(a.Expr).(*ast.Ident)
				return isID && !a.Neg && a.Tag == nil && info.ObjectOf(id) != obj && isEndstreamFlagDepth(fn, info.ObjectOf(id), declared, depth-1)
			})
			if !under {
				return false
			}
			fromCall = true
			continue
		}
		if id, isID := ast.Unparen(rhs).(*ast.Ident); isID {
			if other := info.ObjectOf(id); other != nil && other != obj && isEndstreamFlagDepth(fn, other, declared, depth-1) {
				fromCall = true
				continue
			}
			return false
		}
		call, ok := ast.Unparen(rhs).(*ast.CallExpr)
		if !ok || core.CalleeKey(info, call) != "pdf.endstreamAt" || !anyArgMentions(info, call, declared) {
			return false
		}
		fromCall = true
	}
	return fromCall
}

// ruleTrimOneEOL (C04-R8): the end-of-line marker before "endstream" is not
// stream data, but only ONE marker (CR, LF or CR LF) is removed: white space
// before it belongs to the data.  Decided on the shape of trimTrailingEOL:
// the extent is shortened outside of any loop, by at most two bytes on any
// path, and only on edges where the byte removed last is LF or CR (the
// second byte only when it is the CR of a CR LF pair).
func ruleTrimOneEOL(c *core.Ctx) {
	const rule = "C04-R8"
	c.Check(rule, "pdf.trimTrailingEOL", "exactly one end-of-line marker (LF, CR or CR LF) is removed from a recovered stream extent, never other white space and never more than one marker", func(o *core.Ob) {
		// the trimming code lives in trimTrailingEOL, or, when that helper was
		// folded into its caller, in ReadStreamData; it is recognised by its
		// probe: a ReadAt into a local array of at most four bytes
		fn := c.Prog.FuncOpt("pdf", "trimTrailingEOL")
		if fn == nil {
			fn = c.Prog.Func("pdf", "(*scanner).ReadStreamData")
		}
		g := fn.Graph()
		info := fn.Info()
		var probe types.Object
		var probeV *core.V
		for _, cs := range callVerticesSuffix(g, ".ReadAt") {
			if len(cs.Call.Args) == 2 {
				e := cs.Call.Args[0]
				if sl, ok := ast.Unparen(e).(*ast.SliceExpr); ok {
					e = sl.X
				}
				if obj := core.ObjOf(info, e); obj != nil {
					if arr, ok := obj.Type().Underlying().(*types.Array); ok && arr.Len() <= 4 {
						probe, probeV = obj, cs.V
					}
				}
			}
		}
		if probe == nil {
			core.Undecided("probe buffer not found")
		}
		after := g.ReachFrom(probeV, false, nil)
		// sites that shorten the extent (after the probe)
		type dec struct {
			v *core.V
			k int64
		}
		var decs []dec
		var length types.Object
		for _, dv := range g.Vs {
			if !after[dv] || dv.AST == nil {
				continue
			}
			var lhs ast.Expr
			var k int64
			switch s := dv.AST.(type) {
			case *ast.IncDecStmt:
				if s.Tok != token.DEC {
					continue
				}
				lhs, k = s.X, 1
			case *ast.AssignStmt:
				if s.Tok != token.SUB_ASSIGN || len(s.Rhs) != 1 {
					continue
				}
				kk, ok := core.IntConst(info, s.Rhs[0])
				if !ok {
					core.Undecided("modification of the extent not understood: %s", c.Prog.Src(s))
				}
				lhs, k = s.Lhs[0], kk
			default:
				continue
			}
			obj := core.ObjOf(info, lhs)
			if obj == nil {
				continue
			}
			// the number of bytes the probe returned is not the extent
			isProbeResult := false
			if pas, ok := probeV.AST.(*ast.AssignStmt); ok {
				for _, l := range pas.Lhs {
					if core.ObjOf(info, l) == obj {
						isProbeResult = true
					}
				}
			}
			if isProbeResult {
				continue
			}
			if length != nil && length != obj {
				core.Undecided("two different variables are shortened after the probe")
			}
			length = obj
			decs = append(decs, dec{dv, k})
		}
		if len(decs) == 0 {
			o.Fail("the extent is never shortened after the probe")
			return
		}
		for _, dv := range defVertices(g, length) {
			if !after[dv] {
				continue
			}
			isDec := false
			for _, d := range decs {
				if d.v == dv {
					isDec = true
				}
			}
			if !isDec {
				if _, isRet := dv.AST.(*ast.ReturnStmt); !isRet {
					core.Undecided("modification of the extent not understood: %s", c.Prog.Src(dv.AST))
				}
			}
		}
		var starts []*core.V
		for _, e := range probeV.Succs {
			starts = append(starts, e.To)
		}
		var isProbeAt func(e ast.Expr, back int64) bool
		isProbeAt = func(e ast.Expr, back int64) bool {
			if id, isID := ast.Unparen(e).(*ast.Ident); isID {
				// a local defined once as probe[n-k]
				if obj := info.ObjectOf(id); obj != nil {
					if ds := core.AssignsTo(info, fn.Decl, obj); len(ds) == 1 {
						if as, ok := ds[0].(*ast.AssignStmt); ok && len(as.Lhs) == 1 && len(as.Rhs) == 1 {
							return isProbeAt(as.Rhs[0], back)
						}
					}
				}
				return false
			}
			ix, ok := ast.Unparen(e).(*ast.IndexExpr)
			if !ok || core.ObjOf(info, ix.X) != probe {
				return false
			}
			be, ok := ast.Unparen(ix.Index).(*ast.BinaryExpr)
			if !ok || be.Op != token.SUB {
				return false
			}
			k, ok := core.IntConst(info, be.Y)
			return ok && k == back
		}
		eol := core.BytesOf("\n\r")
		maxTotal := int64(0)
		for _, d := range decs {
			o.At(fn.Site(d.v.AST, "shortens the extent"))
			o.Count(1)
			if g.InLoop(d.v) {
				o.FailAt(fn.Site(d.v.AST, ""), "%s: the extent is shortened inside a loop: more than one end-of-line marker (or other white space) can be removed", c.Prog.Pos(d.v.AST.Pos()))
				continue
			}
			// bytes at the end for which this site is reachable
			last := &core.ByteEnv{Info: info, Alias: func(e ast.Expr) bool { return isProbeAt(e, 1) }, Tables: map[types.Object][]int64{}}
			if v, ok := fn.Pkg.Types.Scope().Lookup("class").(*types.Var); ok {
				last.Tables[v] = c.Prog.ArrayTable("pdf", "class")
			}
			set := last.ReachSet(g, starts, func(x *core.V) bool { return x == d.v }, nil)
			if !set.SubsetOf(eol) {
				o.FailAt(fn.Site(d.v.AST, ""), "%s: the extent is shortened when the last byte is one of %s: only LF and CR end a line", c.Prog.Pos(d.v.AST.Pos()), set.Minus(eol))
			}
			// other decrements before this one on a path
			total := d.k
			for _, p := range decs {
				if p.v != d.v && g.ReachFrom(p.v, false, nil)[d.v] {
					total += p.k
					// second byte: only the CR of CR LF
					prev := &core.ByteEnv{Info: info, Alias: func(e ast.Expr) bool { return isProbeAt(e, 2) }, Tables: last.Tables}
					s2 := prev.ReachSet(g, starts, func(x *core.V) bool { return x == d.v }, nil)
					lf := last.ReachSet(g, starts, func(x *core.V) bool { return x == d.v }, nil)
					if !s2.SubsetOf(core.BytesOf("\r")) || !lf.SubsetOf(core.BytesOf("\n")) {
						o.FailAt(fn.Site(d.v.AST, ""), "%s: a second byte is removed for last bytes %s / preceding bytes %s: only the pair CR LF is a two-byte marker", c.Prog.Pos(d.v.AST.Pos()), lf, s2.Minus(core.BytesOf("\r")))
					}
				}
			}
			if total > maxTotal {
				maxTotal = total
			}
		}
		o.Fact("at most %d bytes removed on a path", maxTotal)
		o.Require(maxTotal <= 2, "up to %d bytes are removed on one path; an end-of-line marker has at most two", maxTotal)
	})
}

// rulePrevChainFollowed (C04-R9): every cross-reference section that was
// read contributes its /Prev link: in readXRef no path leads from reading a
// section back to the loop test except through the assignment of the next
// start position (a "continue" taken because an /XRefStm was already decoded
// would end the chain early and lose the older revisions).
// ruleStringEOLFlag: the "a CR was just seen" flag of ReadString affects only
// the byte that follows the CR: every path around the byte loop passes a
// reset of the flag or an edge on which the flag is known to be false.
func rulePrevChainFollowed(c *core.Ctx) {
	c.Check("C04-R9", "pdf.(*Reader).readXRef/prev", "after a section has been read, the loop continues only through the assignment of the next start position taken from /Prev", func(o *core.Ob) {
		fn := c.Prog.Func("pdf", "(*Reader).readXRef")
		g := fn.Graph()
		info := fn.Info()
		heads := loopHeads(g)
		if len(heads) == 0 {
			core.Undecided("section loop not found")
		}
		head := heads[0]
		var startObj types.Object
		ast.Inspect(head.Cond.Expr, func(m ast.Node) bool {
			if ix, ok := m.(*ast.IndexExpr); ok {
				startObj = core.ObjOf(info, ix.Index)
			}
			return true
		})
		if startObj == nil {
			core.Undecided("loop test does not look up the start position")
		}
		var next []*core.V
		for _, dv := range defVertices(g, startObj) {
			if as, ok := dv.AST.(*ast.AssignStmt); ok && as.Tok == token.ASSIGN && g.InLoop(dv) {
				next = append(next, dv)
				o.At(fn.Site(as, "next section"))
			}
		}
		o.Require(len(next) >= 1, "the start position is never advanced inside the loop")
		reads := callVertices(g, "pdf.readXRefTable", "pdf.(*Reader).readXRefStream")
		o.Shape(len(reads) >= 2, "section readers not found")
		for _, rv := range reads {
			o.Count(1)
			if g.ReachFrom(rv.V, false, core.AvoidVs(next...))[head] {
				o.FailAt(fn.Site(rv.Call, ""), "%s: after this section was read the loop can continue without following the section's /Prev link", c.Prog.Pos(rv.Call.Pos()))
			}
		}
	})
	c.Check("C04-R9", "pdf.(*Reader).readXRef/chain-end", "the walk along /Prev ends successfully only where a section has no /Prev entry (or its position was visited before): no other condition may cut the chain, older sections define the objects that were never rewritten", func(o *core.Ob) {
		fn := c.Prog.Func("pdf", "(*Reader).readXRef")
		g := fn.Graph()
		info := fn.Info()
		heads := loopHeads(g)
		if len(heads) == 0 {
			core.Undecided("section loop not found")
		}
		head := heads[0]
		body := succ(head, core.EdgeTrue)
		if body == nil {
			core.Undecided("section loop has no body")
		}
		from := g.ReachPlain(body, true, core.AvoidVs(head))
		inLoop := map[*core.V]bool{head: true}
		for v := range from {
			if g.ReachPlain(v, false, nil)[head] {
				inLoop[v] = true
			}
		}
		// the value of /Prev: locals defined as <dict>["Prev"], and the comma-ok result of such a lookup
		prevVal := map[types.Object]bool{}
		prevOK := map[types.Object]bool{}
		isPrevLookup := func(e ast.Expr) bool {
			ix, ok := ast.Unparen(e).(*ast.IndexExpr)
			if !ok {
				return false
			}
			k, isK := core.StringConst(info, ix.Index)
			return isK && k == "Prev"
		}
		for _, v := range g.Vs {
			as, ok := v.AST.(*ast.AssignStmt)
			if !ok || len(as.Rhs) != 1 || !isPrevLookup(as.Rhs[0]) {
				continue
			}
			if obj := core.ObjOf(info, as.Lhs[0]); obj != nil {
				prevVal[obj] = true
			}
			if len(as.Lhs) == 2 {
				if obj := core.ObjOf(info, as.Lhs[1]); obj != nil {
					prevOK[obj] = true
				}
			}
		}
		noPrev := func(a core.Atom) bool {
			if a.Tag != nil {
				return false
			}
			if id, ok := ast.Unparen(a.Expr).(*ast.Ident); ok && prevOK[info.ObjectOf(id)] && a.Neg {
				return true
			}
			cmp, ok := a.AsCmp()
			if !ok || cmp.Op != token.EQL {
				return false
			}
			for _, pr := range [][2]ast.Expr{{cmp.L, cmp.R}, {cmp.R, cmp.L}} {
				if core.IsNil(info, pr[1]) && (isPrevLookup(pr[0]) || prevVal[core.ObjOf(info, pr[0])]) {
					return true
				}
			}
			return false
		}
		mentionsPrev := func(e ast.Expr) bool {
			found := false
			ast.Inspect(e, func(n ast.Node) bool {
				switch x := n.(type) {
				case *ast.Ident:
					if obj := info.ObjectOf(x); prevVal[obj] || prevOK[obj] {
						found = true
					}
				case *ast.IndexExpr:
					if isPrevLookup(x) {
						found = true
					}
				}
				return !found
			})
			return found
		}
		// successful ends of the function
		var okRets []*core.V
		for _, r := range g.Returns() {
			rs, isRet := r.AST.(*ast.ReturnStmt)
			if !isRet || len(rs.Results) == 0 {
				continue
			}
			// (a return of a helper that was folded in is not an end of the function)
			toExit := false
			for _, e := range r.Succs {
				if e.To == g.Exit {
					toExit = true
				}
			}
			if toExit && len(rs.Results) == 3 && core.IsNil(info, rs.Results[len(rs.Results)-1]) {
				okRets = append(okRets, r)
			}
		}
		if len(okRets) == 0 {
			o.Unrec("readXRef has no return with a nil error")
			return
		}
		exits := 0
		for u := range inLoop {
			if u == head {
				continue
			}
			for _, e := range u.Succs {
				if inLoop[e.To] {
					continue
				}
				// does this way out end in success?
				r := g.ReachPlain(e.To, true, nil)
				success := false
				for _, ok := range okRets {
					if r[ok] || e.To == ok {
						success = true
					}
				}
				if !success {
					continue
				}
				exits++
				site := u.AST
				if site == nil {
					site = head.AST
				}
				o.At(fn.Site(site, "the chain walk ends here"))
				if g.GuardedBy(u, noPrev) || (u.Cond != nil && func() bool {
					for _, a := range u.Implied(e.Label) {
						if noPrev(a) {
							return true
						}
					}
					return false
				}()) {
					continue
				}
				// under which condition?
				conds := dominatingConds(g, u)
				unknown := false
				for _, bv := range g.BranchVertices() {
					if bv.Cond.Expr == nil || !inLoop[bv] || bv == u || !g.Dominates(bv, u) || !mentionsPrev(bv.Cond.Expr) {
						continue
					}
					// a test of /Prev against nil (either way) is understood; anything else about /Prev is not
					understood := false
					for _, l := range []core.EdgeLabel{core.EdgeTrue, core.EdgeFalse} {
						for _, a := range bv.Implied(l) {
							if noPrev(a) || noPrev(core.Atom{Expr: a.Expr, Neg: !a.Neg, Tag: a.Tag}) {
								understood = true
							}
						}
					}
					if !understood {
						unknown = true
					}
				}
				if unknown {
					o.Unrec("%s: the chain walk ends under a condition on /Prev that is not of the form prev == nil (%v)", c.Prog.Pos(site.Pos()), conds)
					continue
				}
				o.FailAt(fn.Site(site, ""), "the walk along /Prev can end here, successfully, although the section just read has a /Prev entry (under %v): the older sections are not read, and every object that only they define resolves to null", conds)
			}
		}
		o.Count(exits + 1)
	})
	c.Check("C04-R9", "pdf.(*scanner).ReadString/eol-flag", "the flag that makes an LF after a CR part of the same end-of-line is cleared after one byte", func(o *core.Ob) {
		fn := c.Prog.Func("pdf", "(*scanner).ReadString")
		g := fn.Graph()
		info := fn.Info()
		var flag types.Object
		for _, v := range g.Vs {
			as, ok := v.AST.(*ast.AssignStmt)
			if !ok || len(as.Lhs) != len(as.Rhs) || !g.InLoop(v) {
				continue
			}
			for i, r := range as.Rhs {
				if cv := core.ConstOf(info, r); cv != nil && cv.String() == "true" {
					if id, isID := ast.Unparen(as.Lhs[i]).(*ast.Ident); isID {
						if obj := info.ObjectOf(id); obj != nil && isBoolObj(obj) {
							flag = obj
						}
					}
				}
			}
		}
		if flag == nil {
			o.Unrec("no boolean local that is set inside the byte loop was found: how an LF after a CR is recognised is not located")
			return
		}
		// every definition of the flag inside the loop that does not depend on its old value ends
		// the life of the old value (clearing it, or setting it for the byte at hand)
		var resets []*core.V
		for _, dv := range defVertices(g, flag) {
			as, ok := dv.AST.(*ast.AssignStmt)
			if !ok || len(as.Lhs) != len(as.Rhs) || !g.InLoop(dv) {
				continue
			}
			for i, l := range as.Lhs {
				if core.ObjOf(info, l) == flag && !core.Mentions(info, as.Rhs[i], flag) {
					resets = append(resets, dv)
					if cv := core.ConstOf(info, as.Rhs[i]); cv != nil && cv.String() == "false" {
						o.At(fn.Site(as, "flag cleared"))
					}
				}
			}
		}
		cleared := false
		for _, dv := range resets {
			as := dv.AST.(*ast.AssignStmt)
			for i, l := range as.Lhs {
				if core.ObjOf(info, l) == flag {
					if cv := core.ConstOf(info, as.Rhs[i]); cv != nil && cv.String() == "false" {
						cleared = true
					}
				}
			}
		}
		o.Require(cleared, "the flag %s is never cleared inside the loop", flag.Name())
		edges := g.GuardEdges(func(a core.Atom) bool {
			id, ok := ast.Unparen(a.Expr).(*ast.Ident)
			return ok && a.Neg && a.Tag == nil && info.ObjectOf(id) == flag
		})
		// one iteration = one byte: the read of the next byte that every other read in the loop follows
		var reads []*core.V
		for _, v := range g.Vs {
			if v.AST == nil || !g.InLoop(v) {
				continue
			}
			for _, cs := range core.CallsIn(info, v.AST, false) {
				if strings.HasSuffix(cs.Key, ".ReadByte") {
					reads = append(reads, v)
				}
			}
		}
		var anchors []*core.V
		for _, r := range reads {
			first := true
			for _, q := range reads {
				if q != r && !g.Dominates(r, q) {
					first = false
				}
			}
			if first {
				anchors = append(anchors, r)
			}
		}
		if len(anchors) == 0 {
			// no such read: the tests of the flag stand for the iteration
			for _, bv := range g.BranchVertices() {
				if bv.Cond.Expr != nil && condMentions(g, bv, flag) {
					anchors = append(anchors, bv)
				}
			}
		}
		if len(anchors) == 0 {
			o.Unrec("neither the read of the next byte nor a test of %s was found in the loop", flag.Name())
			return
		}
		o.Count(len(anchors))
		bad := false
		for _, tv := range anchors {
			if g.ReachFrom(tv, false, core.AvoidEdges(edges...).With(resets...))[tv] {
				bad = true
			}
		}
		if bad {
			o.Fail("%s: an iteration of the byte loop can complete with the flag %s neither cleared nor known to be clear: an LF later in the string is swallowed", c.Prog.Pos(fn.Decl.Pos()), flag.Name())
		}
	})
}

// ruleXRefTableEntryEOL (C04-R10): a cross-reference table entry is 20 bytes
// long and ends in one of SP CR, SP LF or CR LF (ISO 32000-2 7.5.4).  The
// reader advances by 20 bytes when the 20th byte is an end-of-line byte and
// falls back to 19 for the malformed one-byte form; both LF and CR must count
// as the 20th byte, or the next entry of a conforming SP CR file is read
// starting at its CR.
func ruleXRefTableEntryEOL(c *core.Ctx) {
	c.Check("C04-R10", "pdf.decodeXRefSection/entry-eol", "an xref table entry is taken as 20 bytes long when its last byte is LF or CR", func(o *core.Ob) {
		fn := c.Prog.Func("pdf", "decodeXRefSection")
		g := fn.Graph()
		info := fn.Info()
		is19 := func(e ast.Expr) bool {
			ix, ok := ast.Unparen(e).(*ast.IndexExpr)
			if !ok {
				return false
			}
			k, isK := core.IntConst(info, ix.Index)
			return isK && k == 19
		}
		// the vertices that advance the position by 20 and by 19
		var adv20, adv19 []*core.V
		for _, v := range g.Vs {
			as, ok := v.AST.(*ast.AssignStmt)
			if !ok || as.Tok != token.ADD_ASSIGN || len(as.Rhs) != 1 {
				continue
			}
			if k, ok := core.IntConst(info, as.Rhs[0]); ok && k == 20 {
				adv20 = append(adv20, v)
			} else if ok && k == 19 {
				adv19 = append(adv19, v)
			}
		}
		var start *core.V
		for _, bv := range g.BranchVertices() {
			if bv.Cond.Expr == nil {
				continue
			}
			found := false
			ast.Inspect(bv.Cond.Expr, func(m ast.Node) bool {
				if e, ok := m.(ast.Expr); ok && is19(e) {
					found = true
				}
				return true
			})
			if found && (start == nil || bv.Cond.Expr.Pos() < start.Cond.Expr.Pos()) {
				start = bv
			}
		}
		if !o.Shape(start != nil && len(adv20) > 0, "the test of the 20th byte of an entry and the advance by 20 were not found") {
			return
		}
		o.At(fn.Site(start.Cond.Expr, "20th byte tested"))
		env := &core.ByteEnv{Info: info, Tables: map[types.Object][]int64{}, Prog: c.Prog}
		env.Alias = is19
		env.Var = types.NewVar(token.NoPos, fn.Pkg.Types, "last", types.Typ[types.Uint8])
		isAdv20 := func(v *core.V) bool {
			for _, a := range adv20 {
				if a == v {
					return true
				}
			}
			return false
		}
		stop := func(v *core.V) bool {
			for _, a := range adv19 {
				if a == v {
					return true
				}
			}
			return false
		}
		full := env.ReachSet(g, []*core.V{start}, isAdv20, stop)
		o.Count(256)
		o.Fact("the entry is 20 bytes long for last bytes %s", full.String())
		for _, b := range []byte{'\n', '\r'} {
			if !full[b] {
				o.Fail("an entry whose 20th byte is %#02x is not taken as a full 20-byte entry (SP CR, SP LF and CR LF are the line endings of ISO 32000-2 7.5.4): the next entry is read one byte early", b)
			}
		}
	})
}

func mentionsAny(es []ast.Expr, pred func(ast.Expr) bool) bool {
	for _, e := range es {
		if pred(e) {
			return true
		}
	}
	return false
}

// anyArgMentions: some argument of the call mentions obj (the position probed
// by endstreamAt, wherever it stands among the parameters).
func anyArgMentions(info *types.Info, call *ast.CallExpr, obj types.Object) bool {
	for _, a := range call.Args {
		if core.Mentions(info, a, obj) {
			return true
		}
	}
	return false
}
