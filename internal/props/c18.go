package props

import (
	"fmt"
	"go/ast"
	"go/token"
	"go/types"
	"os"
	"sort"
	"strings"

	"golang.org/x/tools/go/packages"

	"golang.org/x/tools/go/ssa"

	"pdfverif/internal/core"
)

func init() {
	register(&Property{
		ID:       "C18",
		Patterns: []string{".", "./font/cmap", "./font/mapping", "./graphics/color", "./pieceinfo"},
		Run:      runC18,
		Explanation: "Lockset and protocol rules on the concurrent read path: (R1) every access to Extractor.cache/wip and to each package-level variable that is written after initialisation happens with its mutex held on every path (forward must-hold analysis on the control-flow graph) or inside its sync.Once; (R2) Lock/Unlock are paired on all paths (no return with the lock held, no unlock of an unheld lock, no double unlock with a deferred one, no re-lock); " +
			"(R3) nothing can block or call out while Extractor.mu is held: no channel operation, no call of a function value, no Getter/Decode call inside a locked region, and the wait on a pending decode happens with the lock released; (R4) the publication protocol: every cache store is dominated by the miss edge of a lookup of the SAME key in the same locked region and the hit edge returns the stored value (first writer wins, racers adopt), Decode returns the adopted value, DecodeExclusive inserts its pending marker in the region that tested cache and wip, writes val/err before close(done), closes done on every path after insertion, and waiters read val/err only after the receive; " +
			"(R5) Reader fields and the maps behind them are written only by the constructors; (R6) no other package-level variable on these paths is written after init. " +
			"Decides these for all schedules at once (they are independent of interleaving); does NOT decide race freedom in general or equality of concurrent and sequential results as values.",
	})
}

func runC18(c *core.Ctx) {
	c.Guard(func() { ruleExtractorLocks(c) })
	c.Guard(func() { rulePublication(c) })
	c.Guard(func() { ruleDecodeExclusive(c) })
	c.Guard(func() { ruleReaderImmutable(c) })
	c.Guard(func() { rulePackageState(c) })
	c.Guard(func() { ruleNoForeignAppend(c, "C18-R7", 8, "pdf") })
	c.Guard(func() { ruleCloseOnce(c) })
	c.Guard(func() { rulePoolPutOwnership(c, "C18-R9") })
	c.Guard(func() { ruleCacheKeyType(c) })
}

// accessesField lists the vertices of g that mention field `field` of pdf.Extractor.
func extractorAccesses(g *core.Graph, field string) []*core.V {
	var out []*core.V
	for _, v := range g.Vs {
		if v.AST == nil {
			continue
		}
		found := false
		ast.Inspect(v.AST, func(n ast.Node) bool {
			if _, isLit := n.(*ast.FuncLit); isLit {
				return false
			}
			if e, ok := n.(ast.Expr); ok {
				if _, ok := core.FieldSel(g.Info, e, "pdf", "Extractor", field); ok {
					found = true
				}
			}
			return !found
		})
		if found {
			out = append(out, v)
		}
	}
	return out
}

func ruleExtractorLocks(c *core.Ctx) {
	pkg := c.Prog.Pkg("pdf")
	nAcc := 0
	c.Floor("C18-R1", 4)
	// helpers that run under the caller's lock: unexported functions of the
	// package that touch cache/wip, never lock or unlock Extractor.mu
	// themselves, and are called only from places where the lock is held (or
	// from other such helpers).  Inside them the lock counts as held
	// throughout; calling them while the lock is held is not "calling out".
	type lockInfo struct {
		fn  *core.Func
		st  *core.LockState
		acc []*core.V
	}
	infos := map[*types.Func]*lockInfo{}
	for _, fn := range c.Prog.Funcs(pkg) {
		if fn.Decl.Body == nil || c.Prog.IsTestFile(fn.Decl.Pos()) {
			continue
		}
		g := fn.Graph()
		var acc []*core.V
		acc = append(acc, extractorAccesses(g, "cache")...)
		acc = append(acc, extractorAccesses(g, "wip")...)
		lo := &core.LockOps{Info: fn.Info(), IsMutex: core.MutexField(fn.Info(), "pdf", "Extractor", "mu")}
		infos[fn.Obj.Origin()] = &lockInfo{fn, lo.Analyze(g), acc}
	}
	heldHelper := map[*types.Func]bool{}
	for obj, li := range infos {
		if !obj.Exported() && len(li.acc) > 0 && len(li.st.Locks) == 0 && len(li.st.Unlocks) == 0 {
			heldHelper[obj] = true
		}
	}
	for changed := true; changed; {
		changed = false
		for h := range heldHelper {
			callers := 0
			ok := true
			for obj, li := range infos {
				g := li.fn.Graph()
				for _, v := range g.Vs {
					if v.AST == nil {
						continue
					}
					for _, cs := range core.CallsIn(li.fn.Info(), v.AST, false) {
						if cs.Fn == nil || cs.Fn.Origin() != h {
							continue
						}
						callers++
						if !(li.st.HeldAt[v] || heldHelper[obj]) {
							ok = false
						}
					}
				}
			}
			if callers == 0 || !ok {
				delete(heldHelper, h)
				changed = true
			}
		}
	}
	for _, fn := range c.Prog.Funcs(pkg) {
		fn := fn
		g := fn.Graph()
		info := fn.Info()
		var acc []*core.V
		acc = append(acc, extractorAccesses(g, "cache")...)
		acc = append(acc, extractorAccesses(g, "wip")...)
		lo := &core.LockOps{Info: info, IsMutex: core.MutexField(info, "pdf", "Extractor", "mu")}
		st := lo.Analyze(g)
		if len(acc) == 0 && len(st.Locks) == 0 {
			continue
		}
		if heldHelper[fn.Obj.Origin()] {
			// the caller's lock covers the whole body
			for _, v := range g.Vs {
				st.HeldAt[v] = true
			}
		}
		if fn.Key == "pdf.NewExtractor" {
			c.Check("C18-R1", fn.Key, "the constructor initialises the maps before the Extractor is shared", func(o *core.Ob) {
				o.At(fn.Site(fn.Decl, "constructor"))
			})
			continue
		}
		nAcc += len(acc)
		c.Check("C18-R1", fn.Key, "every access to Extractor.cache / Extractor.wip happens with Extractor.mu held on every path", func(o *core.Ob) {
			for _, v := range acc {
				o.At(fn.Site(v.AST, "accesses cache/wip"))
				if !st.HeldAt[v] {
					o.FailAt(fn.Site(v.AST, ""), "cache/wip is accessed on a path where Extractor.mu is not held")
				}
			}
			if len(acc) == 0 {
				o.Count(1)
			}
		})
		c.Check("C18-R2", fn.Key, "Lock/Unlock of Extractor.mu are paired on every path", func(o *core.Ob) {
			o.Count(len(st.Locks) + len(st.Unlocks) + 1)
			for _, l := range st.Locks {
				o.At(fn.Site(l.AST, "Lock"))
			}
			for _, p := range st.Problems {
				o.Fail("%s", p)
			}
		})
		c.Check("C18-R3", fn.Key, "while Extractor.mu is held nothing can block or call out: no channel operation, no call through a function value, no Getter or Decode call", func(o *core.Ob) {
			n := 0
			for _, v := range g.Vs {
				if v.AST == nil || !(st.HeldAt[v] || st.MaybeAt[v]) {
					continue
				}
				if _, isDefer := v.AST.(*ast.DeferStmt); isDefer {
					continue
				}
				n++
				ast.Inspect(v.AST, func(m ast.Node) bool {
					switch x := m.(type) {
					case *ast.FuncLit:
						return false
					case *ast.SendStmt:
						o.FailAt(fn.Site(x, ""), "channel send while the lock is held")
					case *ast.UnaryExpr:
						if x.Op == token.ARROW {
							o.FailAt(fn.Site(x, ""), "channel receive while the lock is held")
						}
					case *ast.SelectStmt:
						o.FailAt(fn.Site(x, ""), "select while the lock is held")
					case *ast.CallExpr:
						key := core.CalleeKey(info, x)
						if tv, ok := info.Types[x.Fun]; ok && tv.IsType() {
							return true
						}
						switch {
						case strings.HasPrefix(key, "builtin."):
							if key == "builtin.close" {
								o.FailAt(fn.Site(x, ""), "close of a channel while the lock is held")
							}
						case key == "reflect.TypeFor" || strings.HasPrefix(key, "sync."):
						case key == "pdf.(*sync.Mutex).Unlock" || strings.HasSuffix(key, ".Unlock") || strings.HasSuffix(key, ".Lock"):
						case key == "":
							o.FailAt(fn.Site(x, ""), "call through a function value (%s) while the lock is held", core.ExprStr(x.Fun))
						default:
							if f := core.Callee(info, x); f != nil && heldHelper[f.Origin()] {
								// a helper that runs under this lock (checked as such itself)
								return true
							}
							o.FailAt(fn.Site(x, ""), "call to %s while the lock is held", key)
						}
					}
					return true
				})
			}
			o.Count(n + 1)
		})
	}
	c.Check("C18-R1", "pdf.Extractor/census", "the number of guarded accesses has not dropped below what was confirmed by reading", func(o *core.Ob) {
		o.Count(nAcc)
		o.Fact("%d accesses to cache/wip outside the constructor", nAcc)
		o.Shape(nAcc >= 10, "only %d accesses to Extractor.cache/wip found, expected at least 10", nAcc)
	})
}

// cacheLookups returns, for the `v, ok := x.cache[K]` statements of g, the
// key expression and the ok object.
type lookupV struct {
	V   *core.V
	Key ast.Expr
	Ok  types.Object
	Val types.Object
}

func cacheLookups(g *core.Graph, field string) []lookupV {
	var out []lookupV
	for _, v := range g.Vs {
		as, ok := v.AST.(*ast.AssignStmt)
		if !ok || len(as.Lhs) != 2 || len(as.Rhs) != 1 {
			continue
		}
		ix, ok := as.Rhs[0].(*ast.IndexExpr)
		if !ok {
			continue
		}
		if _, ok := core.FieldSel(g.Info, ix.X, "pdf", "Extractor", field); !ok {
			continue
		}
		out = append(out, lookupV{v, ix.Index, core.ObjOf(g.Info, as.Lhs[1]), core.ObjOf(g.Info, as.Lhs[0])})
	}
	return out
}

func extractorStores(g *core.Graph, field string) []storeV {
	var out []storeV
	for _, v := range g.Vs {
		as, ok := v.AST.(*ast.AssignStmt)
		if !ok || len(as.Lhs) != 1 {
			continue
		}
		ix, ok := as.Lhs[0].(*ast.IndexExpr)
		if !ok {
			continue
		}
		if _, ok := core.FieldSel(g.Info, ix.X, "pdf", "Extractor", field); !ok {
			continue
		}
		out = append(out, storeV{v, as, ix.Index, as.Rhs[0]})
	}
	return out
}

func posText(k int64) string {
	if k < 0 {
		return fmt.Sprintf("len%d", k)
	}
	return fmt.Sprintf("%d", k)
}

// chainParam returns the []Reference parameter of fn.
func chainParam(fn *core.Func) types.Object {
	info := fn.Info()
	if fn.Decl.Type.Params == nil {
		return nil
	}
	var out types.Object
	for _, f := range fn.Decl.Type.Params.List {
		for _, n := range f.Names {
			obj := info.ObjectOf(n)
			if sl, ok := obj.Type().Underlying().(*types.Slice); ok && core.IsNamed(sl.Elem(), "pdf", "Reference") {
				if out != nil {
					return nil
				}
				out = obj
			}
		}
	}
	return out
}

// chainIdx says which element of the chain an expression denotes: a constant
// position, or the element of a loop (its head) that visits every position.
type chainIdx struct {
	kind string // "const", "loop", ""
	k    int64
	loop *core.V
	why  string
}

// idxTerm is an index into the chain in symbolic form.
type idxTerm struct {
	isConst bool
	k       int64   // from the start; negative: from the end
	loop    *core.V // the element the loop is at
	partial bool    // the loop visits only part of the positions
}

// chainIndexOf resolves the reference component of a cache key (the key
// expression as used at vertex at) to a position in the chain refs.  It
// follows struct literals, single definitions of locals, assignments to the
// key's ref field, range values, and slices of keys that were filled from
// the chain position by position.
func chainIndexOf(fn *core.Func, g *core.Graph, refs types.Object, at *core.V, key ast.Expr, depth int) chainIdx {
	t, why := chainRefOfKey(fn, g, refs, at, key, nil, depth)
	if t == nil {
		return chainIdx{why: why}
	}
	if t.isConst {
		return chainIdx{kind: "const", k: t.k}
	}
	if t.partial {
		return chainIdx{kind: "part", loop: t.loop}
	}
	return chainIdx{kind: "loop", loop: t.loop}
}

// loopOverLen reports whether e is the chain or a slice made with its length.
func loopOverLen(fn *core.Func, g *core.Graph, refs types.Object, e ast.Expr) (a, b, of bool, c bool) {
	info := fn.Info()
	o := core.ObjOf(info, e)
	if o == nil {
		return
	}
	if o == refs {
		of = true
		return
	}
	defs := defVertices(g, o)
	if len(defs) != 1 {
		return
	}
	rhs, _ := rhsFor(info, defs[0], o)
	if call, ok := ast.Unparen(rhs).(*ast.CallExpr); ok && rhs != nil && core.CalleeKey(info, call) == "builtin.make" && len(call.Args) == 2 {
		if lc, ok := ast.Unparen(call.Args[1]).(*ast.CallExpr); ok && core.CalleeKey(info, lc) == "builtin.len" && len(lc.Args) == 1 && core.ObjOf(info, lc.Args[0]) == refs {
			of = true
		}
	}
	return
}

// fullLoopOver: if obj is the index or the element variable of a loop that
// visits every position of a slice as long as the chain (the chain itself, or
// a slice made with its length), the loop's head; elem says whether obj is
// the element (and of which slice).
func fullLoopOver(fn *core.Func, g *core.Graph, refs types.Object, obj types.Object) (head *core.V, isElem bool, of types.Object) {
	head, isElem, of, partial := loopOver(fn, g, refs, obj)
	if partial {
		return nil, false, nil
	}
	return head, isElem, of
}

// loopOver is fullLoopOver that also recognises loops over a proper part of
// the positions (range x[1:], i := 1; ...), flagged partial.
func loopOver(fn *core.Func, g *core.Graph, refs types.Object, obj types.Object) (head *core.V, isElem bool, of types.Object, partial bool) {
	info := fn.Info()
	part := false
	sameLen := func(e ast.Expr) types.Object {
		part = false
		if se, ok := ast.Unparen(e).(*ast.SliceExpr); ok {
			// x[a:b]: part of x unless a is 0/absent and b is absent
			if se.High != nil {
				part = true
			}
			if se.Low != nil {
				if k, isK := core.IntConst(info, se.Low); !isK || k != 0 {
					part = true
				}
			}
			e = se.X
		}
		o := core.ObjOf(info, e)
		if o == nil {
			return nil
		}
		if o == refs {
			return o
		}
		// made with the chain's length: x := make([]T, len(refs))
		defs := defVertices(g, o)
		if len(defs) != 1 {
			return nil
		}
		rhs, _ := rhsFor(info, defs[0], o)
		if rhs == nil {
			return nil
		}
		if call, ok := ast.Unparen(rhs).(*ast.CallExpr); ok && core.CalleeKey(info, call) == "builtin.make" && len(call.Args) == 2 {
			if lc, ok := ast.Unparen(call.Args[1]).(*ast.CallExpr); ok && core.CalleeKey(info, lc) == "builtin.len" && len(lc.Args) == 1 && core.ObjOf(info, lc.Args[0]) == refs {
				return o
			}
		}
		return nil
	}
	for _, h := range loopHeads(g) {
		if r := h.Cond.Range; r != nil {
			x := sameLen(r.X)
			if x == nil {
				continue
			}
			isPart := part
			if r.Key != nil && core.ObjOf(info, r.Key) == obj && obj != nil {
				return h, false, x, isPart
			}
			if r.Value != nil && core.ObjOf(info, r.Value) == obj && obj != nil {
				return h, true, x, isPart
			}
			continue
		}
		fs, ok := h.AST.(*ast.ForStmt)
		if !ok {
			if h.Block != nil && h.Block.Stmt != nil {
				fs, ok = h.Block.Stmt.(*ast.ForStmt)
			}
		}
		if !ok || fs == nil || fs.Init == nil || fs.Cond == nil || fs.Post == nil {
			continue
		}
		init, ok1 := fs.Init.(*ast.AssignStmt)
		cond, ok2 := ast.Unparen(fs.Cond).(*ast.BinaryExpr)
		post, ok3 := fs.Post.(*ast.IncDecStmt)
		if !ok1 || !ok2 || !ok3 || len(init.Lhs) != 1 || len(init.Rhs) != 1 || core.ObjOf(info, init.Lhs[0]) != obj || obj == nil {
			continue
		}
		k0, isK := core.IntConst(info, init.Rhs[0])
		if !isK || k0 < 0 {
			continue
		}
		if cond.Op != token.LSS || core.ObjOf(info, cond.X) != obj || post.Tok != token.INC || core.ObjOf(info, post.X) != obj {
			continue
		}
		lc, isCall := ast.Unparen(cond.Y).(*ast.CallExpr)
		if !isCall || core.CalleeKey(info, lc) != "builtin.len" || len(lc.Args) != 1 {
			continue
		}
		x := sameLen(lc.Args[0])
		if x == nil || len(defVertices(g, obj)) > 2 {
			continue
		}
		return h, false, x, part || k0 != 0
	}
	return nil, false, nil, false
}

// chainRefOfKey: the position in the chain of the reference a key carries.
// bind maps an index variable to the term it stands for (when the key was
// read from a slice of keys at that position).
func chainRefOfKey(fn *core.Func, g *core.Graph, refs types.Object, at *core.V, key ast.Expr, bind map[types.Object]*idxTerm, depth int) (*idxTerm, string) {
	info := fn.Info()
	if depth <= 0 {
		return nil, "too deep"
	}
	key = ast.Unparen(key)
	if u, ok := key.(*ast.UnaryExpr); ok && u.Op == token.AND {
		key = ast.Unparen(u.X)
	}
	switch x := key.(type) {
	case *ast.CompositeLit:
		if !core.IsNamed(info.TypeOf(x), "pdf", "extractorKey") {
			return nil, "a literal of another type"
		}
		r := literalField(info, x, "ref")
		if r == nil {
			return nil, "the key literal has no reference"
		}
		return chainRefOfRef(fn, g, refs, at, r, bind, depth-1)
	case *ast.Ident:
		obj := info.ObjectOf(x)
		if obj == nil {
			return nil, "unresolved identifier"
		}
		// the element of a loop over a slice of keys
		if h, isElem, of, part := loopOver(fn, g, refs, obj); h != nil && isElem && of != refs {
			return chainKeyElem(fn, g, refs, of, &idxTerm{loop: h, partial: part}, depth-1)
		}
		// key.ref = E on every path to the use (the last such assignment)
		var best *core.V
		var bestExpr ast.Expr
		for _, v := range g.Vs {
			as, ok := v.AST.(*ast.AssignStmt)
			if !ok || len(as.Lhs) != len(as.Rhs) || as.Tok != token.ASSIGN {
				continue
			}
			for i, l := range as.Lhs {
				sel, ok := ast.Unparen(l).(*ast.SelectorExpr)
				if !ok || sel.Sel.Name != "ref" || core.ObjOf(info, sel.X) != obj {
					continue
				}
				if v != at && g.Dominates(v, at) && (best == nil || g.Dominates(best, v)) {
					best, bestExpr = v, as.Rhs[i]
				}
			}
		}
		if best != nil {
			// no other assignment of the field between the chosen one and the use
			for _, v := range g.Vs {
				as, ok := v.AST.(*ast.AssignStmt)
				if !ok || v == best {
					continue
				}
				for _, l := range as.Lhs {
					if sel, ok := ast.Unparen(l).(*ast.SelectorExpr); ok && sel.Sel.Name == "ref" && core.ObjOf(info, sel.X) == obj {
						if g.ReachFrom(best, false, nil)[v] && g.ReachFrom(v, false, core.AvoidVs(best))[at] {
							return nil, "the key's reference is assigned on some paths only"
						}
					}
				}
			}
			return chainRefOfRef(fn, g, refs, best, bestExpr, bind, depth-1)
		}
		cs := valueCases(g, at, x, 1)
		if len(cs) != 1 || cs[0].V == nil || cs[0].V == at || cs[0].Expr == ast.Expr(x) {
			return nil, "the key " + x.Name + " has no single definition"
		}
		return chainRefOfKey(fn, g, refs, cs[0].V, cs[0].Expr, bind, depth-1)
	case *ast.IndexExpr:
		// keys[I]
		of := core.ObjOf(info, x.X)
		if of == nil {
			return nil, "indexed value is not a local"
		}
		it, why := chainIndexTerm(fn, g, refs, at, x.Index, bind, depth-1)
		if it == nil {
			return nil, why
		}
		return chainKeyElem(fn, g, refs, of, it, depth-1)
	}
	return nil, "key of a form that is not followed"
}

// chainKeyElem: the chain position of the reference in keys[pos], for a
// slice of keys filled position by position in one loop.
func chainKeyElem(fn *core.Func, g *core.Graph, refs types.Object, keys types.Object, pos *idxTerm, depth int) (*idxTerm, string) {
	info := fn.Info()
	var storeV *core.V
	var storeIdx, storeVal ast.Expr
	for _, v := range g.Vs {
		as, ok := v.AST.(*ast.AssignStmt)
		if !ok || len(as.Lhs) != len(as.Rhs) {
			continue
		}
		for i, l := range as.Lhs {
			if ix, ok := ast.Unparen(l).(*ast.IndexExpr); ok && core.ObjOf(info, ix.X) == keys {
				if storeV != nil {
					return nil, "the slice of keys is filled in more than one place"
				}
				storeV, storeIdx, storeVal = v, ix.Index, as.Rhs[i]
			}
		}
	}
	if storeV == nil {
		return nil, "no element store into the slice of keys"
	}
	j := core.ObjOf(info, storeIdx)
	h, isElem, _ := fullLoopOver(fn, g, refs, j)
	if j == nil || h == nil || isElem {
		return nil, "the slice of keys is not filled by a loop over every position"
	}
	body := succ(h, core.EdgeTrue)
	if body == nil || g.ReachFrom(body, true, core.AvoidVs(storeV))[h] || g.ReachFrom(body, true, core.AvoidVs(h))[g.Exit] {
		return nil, "the loop that fills the slice of keys can skip a position"
	}
	return chainRefOfKey(fn, g, refs, storeV, storeVal, map[types.Object]*idxTerm{j: pos}, depth)
}

// chainRefOfRef: the position in the chain of a Reference-valued expression.
func chainRefOfRef(fn *core.Func, g *core.Graph, refs types.Object, at *core.V, e ast.Expr, bind map[types.Object]*idxTerm, depth int) (*idxTerm, string) {
	info := fn.Info()
	if depth <= 0 {
		return nil, "too deep"
	}
	switch x := ast.Unparen(e).(type) {
	case *ast.IndexExpr:
		if core.ObjOf(info, x.X) != refs {
			return nil, "a reference that is not taken from the chain"
		}
		return chainIndexTerm(fn, g, refs, at, x.Index, bind, depth-1)
	case *ast.Ident:
		obj := info.ObjectOf(x)
		if h, isElem, of, part := loopOver(fn, g, refs, obj); h != nil && isElem && of == refs {
			return &idxTerm{loop: h, partial: part}, ""
		}
		cs := valueCases(g, at, x, 1)
		if len(cs) != 1 || cs[0].V == nil || cs[0].V == at || cs[0].Expr == ast.Expr(x) {
			return nil, "the reference " + x.Name + " has no single definition"
		}
		return chainRefOfRef(fn, g, refs, cs[0].V, cs[0].Expr, bind, depth-1)
	}
	return nil, "a reference of a form that is not followed"
}

// chainIndexTerm evaluates an index expression: a constant, a bound
// variable, or the index variable of a loop over every position.
func chainIndexTerm(fn *core.Func, g *core.Graph, refs types.Object, at *core.V, e ast.Expr, bind map[types.Object]*idxTerm, depth int) (*idxTerm, string) {
	info := fn.Info()
	if k, ok := core.IntConst(info, e); ok {
		return &idxTerm{isConst: true, k: k}, ""
	}
	if be, isBin := ast.Unparen(e).(*ast.BinaryExpr); isBin && be.Op == token.SUB {
		// len(x)-k: the k-th position from the end
		if lc, isCall := ast.Unparen(be.X).(*ast.CallExpr); isCall && core.CalleeKey(info, lc) == "builtin.len" && len(lc.Args) == 1 {
			if k, isK := core.IntConst(info, be.Y); isK && k >= 1 {
				if _, _, of, _ := loopOverLen(fn, g, refs, lc.Args[0]); of {
					return &idxTerm{isConst: true, k: -k}, ""
				}
			}
		}
	}
	id, ok := ast.Unparen(e).(*ast.Ident)
	if !ok {
		return nil, "a computed position " + core.ExprStr(e)
	}
	obj := info.ObjectOf(id)
	if t := bind[obj]; t != nil {
		return t, ""
	}
	if h, isElem, _, part := loopOver(fn, g, refs, obj); h != nil && !isElem {
		return &idxTerm{loop: h, partial: part}, ""
	}
	return nil, "the position " + id.Name + " is not a constant or the index of a loop over the whole chain"
}

func okEdgeGuard(g *core.Graph, site *core.V, okObj types.Object, want bool) bool {
	return g.GuardedBy(site, func(a core.Atom) bool {
		id, isID := ast.Unparen(a.Expr).(*ast.Ident)
		return isID && a.Tag == nil && g.Info.ObjectOf(id) == okObj && a.Neg == !want
	})
}

func rulePublication(c *core.Ctx) {
	const rule = "C18-R4"
	c.Check(rule, "pdf.StoreOrLoadPair", "each of the two views is stored only on the miss edge of a lookup of ITS OWN key, and adopted from the cache on the hit edge (first writer wins for each type)", func(o *core.Ob) {
		fn := c.Prog.Func("pdf", "StoreOrLoadPair")
		g := fn.Graph()
		info := fn.Info()
		looks := cacheLookups(g, "cache")
		stores := extractorStores(g, "cache")
		o.Shape(len(looks) == 2, "expected two lookups (one per view), found %d", len(looks))
		o.Shape(len(stores) == 2, "expected two stores (one per view), found %d", len(stores))
		for _, st := range stores {
			o.At(fn.Site(st.Stmt, "store under "+core.ExprStr(st.Index)))
			ok := false
			for _, lk := range looks {
				if core.SameExpr(info, lk.Key, st.Index) && okEdgeGuard(g, st.V, lk.Ok, false) {
					ok = true
				}
			}
			if !ok {
				o.FailAt(fn.Site(st.Stmt, ""), "the view is stored under %s without the miss edge of a lookup of %s: a value another goroutine already published would be overwritten", core.ExprStr(st.Index), core.ExprStr(st.Index))
			}
		}
		if os.Getenv("PDFVERIF_DEBUG_C18") != "" {
			for _, v := range g.Vs {
				if v.AST != nil {
					fmt.Fprintf(os.Stderr, "V %T %s\n", v.AST, c.Prog.Src(v.AST))
				}
			}
		}
		// hit edges adopt
		for _, lk := range looks {
			adopted := false
			for _, v := range g.Vs {
				if as, ok := v.AST.(*ast.AssignStmt); ok && v != lk.V {
					mentions := false
					for _, r := range as.Rhs {
						if core.Mentions(info, r, lk.Val) {
							mentions = true
						}
					}
					// (two copies of a folded-in helper share their locals: the lookup that reaches this use must be lk)
					if mentions && okEdgeGuard(g, v, lk.Ok, true) && g.PathExists(lk.V, v, nil) {
						adopted = true
					}
				}
			}
			o.Require(adopted, "a published view under %s is not adopted on the hit edge", core.ExprStr(lk.Key))
		}
		// keys: same ref, the two type parameters
		src := c.Prog.Src(fn.Decl.Body)
		o.Shape(strings.Contains(src, "ka:=extractorKey{ref:ref,tp:reflect.TypeFor[A]()}") && strings.Contains(src, "kb:=extractorKey{ref:ref,tp:reflect.TypeFor[B]()}"), "the two views are not keyed by (ref, A) and (ref, B)")
	})
	c.Check(rule, "pdf.(*Extractor).cacheStoreOrLoad", "the value is published only on the miss edge and the hit edge returns the value already in the cache", func(o *core.Ob) {
		fn := c.Prog.Func("pdf", "(*Extractor).cacheStoreOrLoad")
		g := fn.Graph()
		info := fn.Info()
		looks := cacheLookups(g, "cache")
		stores := extractorStores(g, "cache")
		// the hit test and the publication form one critical section: a hit
		// test made through a function that takes the lock itself (cacheGet)
		// ends its critical section before the store begins, so that two
		// racing decoders both miss and both publish
		for _, cv := range callVertices(g, "pdf.(*Extractor).cacheGet") {
			o.Count(1)
			for _, st := range stores {
				if g.PathExists(cv.V, st.V, nil) {
					o.FailAt(fn.Site(cv.Call, ""), "%s: the hit test is made in a critical section of its own (cacheGet locks and unlocks), the publication at %s in another: two goroutines decoding the same object can both miss and publish different values", c.Prog.Pos(cv.Call.Pos()), c.Prog.Pos(st.Stmt.Pos()))
				}
			}
		}
		if len(looks) != 1 || len(stores) != 1 {
			o.Count(1)
			o.Unrec("expected one lookup and one store, found %d/%d", len(looks), len(stores))
			return
		}
		o.At(fn.Site(looks[0].V.AST, "lookup"))
		o.At(fn.Site(stores[0].Stmt, "store"))
		o.Require(okEdgeGuard(g, stores[0].V, looks[0].Ok, false), "the store is reachable on the hit edge (an already published value would be overwritten)")
		hit := false
		for _, r := range g.Returns() {
			rs := r.AST.(*ast.ReturnStmt)
			if core.ObjOf(info, rs.Results[0]) == looks[0].Val {
				hit = okEdgeGuard(g, r, looks[0].Ok, true)
				if !hit {
					// one common return of a variable that holds the cached value on the hit edge and
					// is given the caller's value on the miss edge (winner, taken := cache[k]; if !taken
					// { ...; winner = res }; return winner)
					var redefs []*core.V
					for _, dv := range defVertices(g, looks[0].Val) {
						if dv != looks[0].V {
							redefs = append(redefs, dv)
						}
					}
					var hitE, missE []core.EdgeRef
					for _, bv := range g.BranchVertices() {
						for _, l := range []core.EdgeLabel{core.EdgeTrue, core.EdgeFalse} {
							for _, a := range bv.Implied(l) {
								if id, isID := ast.Unparen(a.Expr).(*ast.Ident); isID && a.Tag == nil && info.ObjectOf(id) == looks[0].Ok {
									if a.Neg {
										missE = append(missE, core.EdgeRef{From: bv, Label: l})
									} else {
										hitE = append(hitE, core.EdgeRef{From: bv, Label: l})
									}
								}
							}
						}
					}
					if len(redefs) > 0 && len(hitE) > 0 && len(missE) > 0 {
						// on the hit edge the looked-up value arrives unchanged, on the miss edge it never does
						viaHit := g.ReachFrom(looks[0].V, false, core.AvoidVs(redefs...).WithEdges(missE...))[r]
						viaMiss := g.ReachFrom(looks[0].V, false, core.AvoidVs(redefs...).WithEdges(hitE...))[r]
						if viaHit && !viaMiss {
							hit = true
						} else if viaMiss {
							o.FailAt(fn.Site(rs, ""), "on the miss edge the variable of the lookup is returned unchanged (the zero value)")
						}
					}
				}
			} else {
				o.Require(okEdgeGuard(g, r, looks[0].Ok, false), "the caller's own value is returned although another value is published")
			}
		}
		o.Require(hit, "the hit edge does not return the cached value")
		// which reference of the chain a key stands for: the first (hit test) or
		// the element of a loop over the whole chain (publication)
		refs := chainParam(fn)
		if refs == nil {
			o.Unrec("the chain of references is not a slice parameter")
			return
		}
		lk := chainIndexOf(fn, g, refs, looks[0].V, looks[0].Key, 6)
		switch {
		case lk.kind == "const" && lk.k == 0:
		case lk.kind == "const":
			o.FailAt(fn.Site(looks[0].V.AST, ""), "the hit test looks at reference %s of the chain: the first reference is the one every decoder of this object starts from, a later one need not be shared", posText(lk.k))
		case lk.kind == "loop" || lk.kind == "part":
			o.FailAt(fn.Site(looks[0].V.AST, ""), "the hit test is made inside a loop over the chain")
		default:
			o.Unrec("the hit test must look at the first reference of the chain (the reference in the key %s is not followed: %s)", core.ExprStr(looks[0].Key), lk.why)
		}
		st := chainIndexOf(fn, g, refs, stores[0].V, stores[0].Index, 6)
		switch {
		case st.kind == "loop":
			head := st.loop
			body := succ(head, core.EdgeTrue)
			if body == nil || !g.ReachFrom(body, true, core.AvoidVs(head))[stores[0].V] {
				o.Unrec("the publication is keyed by the element of a loop it is not part of")
				break
			}
			if g.ReachFrom(body, true, core.AvoidVs(stores[0].V))[head] {
				o.FailAt(fn.Site(stores[0].Stmt, ""), "an iteration of the loop over the chain can skip the publication: some reference of the chain stays unpublished")
			}
			if g.ReachFrom(body, true, core.AvoidVs(head))[g.Exit] {
				o.FailAt(fn.Site(stores[0].Stmt, ""), "the loop over the chain can be left before its end: the value is not published under every reference of the chain")
			}
		case st.kind == "part":
			o.FailAt(fn.Site(stores[0].Stmt, ""), "the value is published by a loop over a part of the chain only: it must be published under every reference (a later Decode may start from any of them)")
		case st.kind == "const":
			o.FailAt(fn.Site(stores[0].Stmt, ""), "the value is published under reference %s of the chain only, it must be published under every reference (a later Decode may start from any of them)", posText(st.k))
		default:
			o.Unrec("the value must be published under every reference of the chain (the reference in the key %s is not followed: %s)", core.ExprStr(stores[0].Index), st.why)
		}
	})
	c.Check(rule, "pdf.Decode/adopt", "Decode returns the value adopted from the cache (not its own result) whenever the object was reached through a reference, consults the cache before following a reference, and never blocks", func(o *core.Ob) {
		fn := c.Prog.Func("pdf", "Decode")
		g := fn.Graph()
		info := fn.Info()
		cs := callVertices(g, "pdf.(*Extractor).cacheStoreOrLoad")
		if len(cs) != 1 {
			o.Count(1)
			o.Unrec("expected one cacheStoreOrLoad call, found %d", len(cs))
			return
		}
		o.At(fn.Site(cs[0].Call, "publish"))
		if len(cs[0].Call.Args) != 3 {
			o.Count(1)
			o.Unrec("cacheStoreOrLoad is called with %d arguments (the chain, the type and the value bundled into a struct?): what is published under which references is not followed", len(cs[0].Call.Args))
			return
		}
		as, ok := cs[0].V.AST.(*ast.AssignStmt)
		returned := false
		if rs, isRet := cs[0].V.AST.(*ast.ReturnStmt); isRet && len(rs.Results) == 2 {
			// return convert(x.cacheStoreOrLoad(...)), nil: the adopted value is what is returned
			ast.Inspect(rs.Results[0], func(m ast.Node) bool {
				if m == ast.Node(cs[0].Call) {
					returned = true
				}
				return true
			})
		}
		if !ok && !returned {
			if es, isExpr := cs[0].V.AST.(*ast.ExprStmt); isExpr && ast.Unparen(es.X) == ast.Expr(cs[0].Call) {
				o.Fail("the result of cacheStoreOrLoad is dropped: racing decoders would return different objects")
				return
			}
			o.Unrec("what happens to the result of cacheStoreOrLoad was not followed (%s)", c.Prog.Src(cs[0].V.AST))
			return
		}
		if ok {
			res := core.ObjOf(info, as.Lhs[0])
			for _, r := range g.Returns() {
				rs := r.AST.(*ast.ReturnStmt)
				if len(rs.Results) == 2 && core.IsNil(info, rs.Results[1]) && g.PathExists(cs[0].V, r, nil) {
					o.Require(core.ObjOf(info, rs.Results[0]) == res, "after publishing, Decode returns %s instead of the adopted value", core.ExprStr(rs.Results[0]))
				}
			}
		}
		guard := g.GuardedBy(cs[0].V, func(a core.Atom) bool {
			cmp, isCmp := a.AsCmp()
			return isCmp && strings.Contains(core.ExprStr(cmp.L), "len(refs)") && (cmp.Op == token.GTR || cmp.Op == token.NEQ)
		})
		// the references are the slice argument, the value is the argument of interface type,
		// wherever they stand in the call
		refsArg, valArg := cs[0].Call.Args[0], cs[0].Call.Args[len(cs[0].Call.Args)-1]
		if sig, _ := info.TypeOf(cs[0].Call.Fun).(*types.Signature); sig != nil && sig.Params().Len() == len(cs[0].Call.Args) {
			nSl, nIf := 0, 0
			for i := 0; i < sig.Params().Len(); i++ {
				switch pt := sig.Params().At(i).Type().Underlying().(type) {
				case *types.Slice:
					if core.IsNamed(pt.Elem(), "pdf", "Reference") {
						refsArg = cs[0].Call.Args[i]
						nSl++
					}
				case *types.Interface:
					if !core.IsNamed(sig.Params().At(i).Type(), "reflect", "Type") {
						valArg = cs[0].Call.Args[i]
						nIf++
					}
				}
			}
			if nSl != 1 || nIf != 1 {
				o.Unrec("cacheStoreOrLoad does not take one slice of references and one value: which argument is which is not decided")
				return
			}
		}
		refsObj := core.ObjOf(info, refsArg)
		if !guard && refsObj != nil {
			// the same fact in another form: the path condition of the call
			// (boolean locals replaced by their single definition) implies
			// len(<the slice handed over>) > 0
			subst := map[types.Object]ast.Expr{}
			var lenCall ast.Expr
			ast.Inspect(fn.Decl.Body, func(m ast.Node) bool {
				if as, ok := m.(*ast.AssignStmt); ok && as.Tok == token.DEFINE && len(as.Lhs) == 1 && len(as.Rhs) == 1 {
					if obj := core.ObjOf(info, as.Lhs[0]); obj != nil && isBoolObj(obj) && len(core.AssignsTo(info, fn.Decl, obj)) == 1 {
						subst[obj] = as.Rhs[0]
					}
				}
				if call, ok := m.(*ast.CallExpr); ok && core.CalleeKey(info, call) == "builtin.len" && len(call.Args) == 1 && core.ObjOf(info, call.Args[0]) == refsObj {
					lenCall = call
				}
				return true
			})
			if lenCall != nil {
				want := &ast.BinaryExpr{X: lenCall, Op: token.GTR, Y: &ast.BasicLit{Kind: token.INT, Value: "0"}}
				nonNeg := core.Atom{Expr: &ast.BinaryExpr{X: lenCall, Op: token.GEQ, Y: &ast.BasicLit{Kind: token.INT, Value: "0"}}}
				holds, _, decided := c.Prog.Implies(core.Formula{Fn: fn, Atoms: append(g.DominatingAtoms(cs[0].V), nonNeg), Subst: subst}, core.Formula{Fn: fn, Atoms: []core.Atom{{Expr: want}}, Subst: subst})
				guard = decided && holds
			}
		}
		if !guard {
			// the same restriction as an early return: every path to the publication
			// passes the success edge of "ref, isRef := obj.(Reference)" for the object
			// Decode was given (a parameter), before any reference is followed
			for _, v := range g.Vs {
				as, isAs := v.AST.(*ast.AssignStmt)
				if !isAs || len(as.Lhs) != 2 || len(as.Rhs) != 1 || as.Tok != token.DEFINE || g.InLoop(v) {
					continue
				}
				ta, isTA := ast.Unparen(as.Rhs[0]).(*ast.TypeAssertExpr)
				if !isTA || ta.Type == nil || !strings.HasSuffix(core.TypeString(info.TypeOf(ta.Type)), "Reference") {
					continue
				}
				src, isVar := core.ObjOf(info, ta.X).(*types.Var)
				if !isVar || paramObj(fn, core.VarName(src)) != src {
					continue
				}
				okObj := core.ObjOf(info, as.Lhs[1])
				for _, bv := range g.BranchVertices() {
					if bv.Cond.Expr == nil || !g.Dominates(v, bv) || g.InLoop(bv) {
						continue
					}
					for _, l := range []core.EdgeLabel{core.EdgeTrue, core.EdgeFalse} {
						for _, a := range bv.Implied(l) {
							if id, isID := ast.Unparen(a.Expr).(*ast.Ident); isID && info.ObjectOf(id) == okObj && !a.Neg && a.Tag == nil {
								// no assignment to the flag between its definition and this test
								reassigned := false
								for _, d := range defVertices(g, okObj) {
									if d != v && g.PathExists(d, bv, nil) {
										reassigned = true
									}
								}
								if !reassigned && g.EdgeDominates(cs[0].V, core.EdgeRef{From: bv, Label: l}) {
									guard = true
								}
							}
						}
					}
				}
			}
		}
		o.Require(guard, "publication is not restricted to objects reached through references")
		// all references followed (the slice every followed reference is appended to) and the decoded value
		appended := false
		if refsObj != nil {
			for _, d := range core.AssignsTo(info, fn.Decl, refsObj) {
				if as, ok := d.(*ast.AssignStmt); ok && len(as.Rhs) == 1 {
					if call, ok := ast.Unparen(as.Rhs[0]).(*ast.CallExpr); ok && core.CalleeKey(info, call) == "builtin.append" {
						appended = true
					}
				}
			}
		}
		decoded := false
		if vo := core.ObjOf(info, valArg); vo != nil {
			for _, d := range core.AssignsTo(info, fn.Decl, vo) {
				if as, ok := d.(*ast.AssignStmt); ok && len(as.Rhs) == 1 {
					if call, ok := ast.Unparen(as.Rhs[0]).(*ast.CallExpr); ok && core.Callee(info, call) == nil && core.CalleeKey(info, call) != "builtin.append" {
						decoded = true // the result of the decode function value
					}
				}
			}
		}
		_, refsLocal := ast.Unparen(refsArg).(*ast.Ident)
		_, valLocal := ast.Unparen(valArg).(*ast.Ident)
		if !refsLocal || !valLocal {
			// the chain or the value is not a local variable of Decode (a field of a helper's result)
			o.Unrec("the references and the value handed to cacheStoreOrLoad are not local variables: %s", core.ExprStr(cs[0].Call))
		} else {
			o.Require(appended && decoded, "cacheStoreOrLoad must be given all references and the decoded value")
		}
		// cacheGet before Get
		cg := callVertices(g, "pdf.(*Extractor).cacheGet")
		get := callVerticesSuffix(g, ".Get")
		// (through cacheGet, or directly when that helper was folded in)
		var consults []*core.V
		for _, x := range cg {
			consults = append(consults, x.V)
		}
		for _, lk := range cacheLookups(g, "cache") {
			consults = append(consults, lk.V)
		}
		okConsult := false
		for _, cv := range consults {
			if len(get) >= 1 && g.Dominates(cv, get[0].V) {
				okConsult = true
			}
		}
		if len(get) == 0 {
			o.Unrec("Decode does not fetch the referenced object itself: where the cache is consulted relative to the fetch is not decided")
		} else {
			o.Require(okConsult, "the cache is not consulted before a reference is followed")
		}
		// no blocking constructs at all
		ast.Inspect(fn.Decl.Body, func(n ast.Node) bool {
			switch x := n.(type) {
			case *ast.UnaryExpr:
				if x.Op == token.ARROW {
					o.FailAt(fn.Site(x, ""), "Decode waits on a channel (mutually referential objects could deadlock)")
				}
			case *ast.SelectStmt, *ast.SendStmt:
				o.FailAt(fn.Site(x, ""), "Decode uses channel synchronisation")
			}
			return true
		})
		// the decode function and the object fetch run without the lock
		lo := &core.LockOps{Info: info, IsMutex: core.MutexField(info, "pdf", "Extractor", "mu")}
		lst := lo.Analyze(g)
		for _, v := range g.Vs {
			if v.AST == nil || !lst.MaybeAt[v] {
				continue
			}
			for _, csite := range core.CallsIn(info, v.AST, false) {
				if csite.Fn == nil || strings.HasSuffix(csite.Key, ".Get") {
					// a call through a function value (the decode callback) or a fetch of another object
					if _, isConv := info.Types[csite.Call.Fun]; isConv && info.Types[csite.Call.Fun].IsType() {
						continue
					}
					if strings.HasPrefix(csite.Key, "builtin.") {
						continue
					}
					o.FailAt(fn.Site(csite.Call, ""), "%s is called while the extractor's lock may be held (mutually referential objects would deadlock)", c.Prog.Src(csite.Call.Fun))
				}
			}
		}
	})
}

func ruleDecodeExclusive(c *core.Ctx) {
	const rule = "C18-R4"
	c.Check(rule, "pdf.DecodeExclusive", "pending hand-over: the marker is inserted in the locked region that tested cache and wip, val/err are written before close(done), done is closed on every path after insertion, the marker is deleted under the lock, and waiters read val/err only after receiving from done (with the lock released)", func(o *core.Ob) {
		fn := c.Prog.Func("pdf", "DecodeExclusive")
		g := fn.Graph()
		info := fn.Info()
		lo := &core.LockOps{Info: info, IsMutex: core.MutexField(info, "pdf", "Extractor", "mu")}
		st := lo.Analyze(g)
		ins := extractorStores(g, "wip")
		if len(ins) != 1 {
			o.Count(1)
			o.Unrec("expected one insertion into wip, found %d", len(ins))
			return
		}
		o.At(fn.Site(ins[0].Stmt, "marker inserted"))
		o.Require(st.HeldAt[ins[0].V], "the marker is inserted without the lock")
		// dominated by the miss edges of the cache and wip lookups, same locked region
		lc := cacheLookups(g, "cache")
		lw := cacheLookups(g, "wip")
		if len(lc) != 1 || len(lw) != 1 {
			o.Unrec("expected one cache lookup and one wip lookup, found %d/%d", len(lc), len(lw))
			return
		}
		o.Require(okEdgeGuard(g, ins[0].V, lc[0].Ok, false), "the marker is inserted although the value may already be cached")
		o.Require(okEdgeGuard(g, ins[0].V, lw[0].Ok, false), "the marker is inserted although another decode is in flight (the function would run twice)")
		// no unlock between the lookups and the insertion on the path to the insertion
		for _, u := range st.Unlocks {
			if g.PathExists(lc[0].V, u, nil) && g.PathExists(u, ins[0].V, nil) {
				o.FailAt(fn.Site(u.AST, ""), "the lock is released between testing and inserting the marker (two goroutines could both insert)")
			}
		}
		// close(p.done)
		var closes []*core.V
		for _, v := range g.Vs {
			if v.AST == nil {
				continue
			}
			for _, cs := range core.CallsIn(info, v.AST, false) {
				if cs.Key == "builtin.close" && strings.HasSuffix(core.ExprStr(cs.Call.Args[0]), ".done") {
					closes = append(closes, v)
					o.At(fn.Site(cs.Call, "close(done)"))
				}
			}
		}
		if len(closes) == 0 {
			o.Fail("done is never closed: waiters block forever")
			return
		}
		if !g.MustPassBefore(ins[0].V, []*core.V{g.Exit}, closes) {
			o.Fail("some path from the insertion of the marker to a return does not close done (a waiting goroutine would block forever)")
		}
		for _, cl := range closes {
			o.Require(!st.MaybeAt[cl], "done is closed while the lock is held")
		}
		// val/err written before close, under the lock
		var wr *core.V
		for _, v := range g.Vs {
			if as, ok := v.AST.(*ast.AssignStmt); ok {
				s := core.ExprStr(as.Lhs[0])
				if strings.HasSuffix(s, ".val") || strings.HasSuffix(s, ".err") {
					wr = v
					o.At(fn.Site(as, "outcome recorded"))
					names := []string{}
					for _, l := range as.Lhs {
						names = append(names, core.ExprStr(l))
					}
					sort.Strings(names)
					o.Require(len(names) == 2 && strings.HasSuffix(names[0], ".err") && strings.HasSuffix(names[1], ".val"), "both the value and the error must be recorded, got %v", names)
				}
			}
		}
		if wr == nil {
			// the marker may keep the outcome in another form (one struct field): then it is not located
			hasVal := false
			if tn, ok := c.Prog.Pkg("pdf").Types.Scope().Lookup("pending").(*types.TypeName); ok {
				if stt, isS := tn.Type().Underlying().(*types.Struct); isS {
					for i := 0; i < stt.NumFields(); i++ {
						if stt.Field(i).Name() == "val" {
							hasVal = true
						}
					}
				}
			}
			if !hasVal {
				o.Unrec("the pending marker has no field val: where the outcome is recorded is not located")
				return
			}
			o.Fail("the outcome is never recorded in the pending marker")
			return
		}
		for _, cl := range closes {
			o.Require(g.Dominates(wr, cl), "done can be closed before the outcome is recorded")
		}
		// delete under lock
		for _, v := range g.Vs {
			if v.AST == nil {
				continue
			}
			for _, cs := range core.CallsIn(info, v.AST, false) {
				if cs.Key == "builtin.delete" {
					o.At(fn.Site(cs.Call, "marker removed"))
					o.Require(st.HeldAt[v], "the marker is removed without the lock")
				}
			}
		}
		// waiters
		var recv *core.V
		for _, v := range g.Vs {
			if es, ok := v.AST.(*ast.ExprStmt); ok {
				if u, ok := es.X.(*ast.UnaryExpr); ok && u.Op == token.ARROW {
					recv = v
					o.At(fn.Site(u, "wait"))
				}
			}
		}
		if recv == nil {
			o.Fail("waiters do not wait for the pending decode")
			return
		}
		o.Require(!st.MaybeAt[recv], "a goroutine waits for the pending decode while holding the lock (deadlock: the decoder needs the lock to finish)")
		o.Require(okEdgeGuard(g, recv, lw[0].Ok, true), "the wait is not on the in-flight edge")
		pObj := lw[0].Val
		for _, v := range g.Vs {
			if v.AST == nil || v == lw[0].V || v == recv {
				continue
			}
			uses := false
			ast.Inspect(v.AST, func(n ast.Node) bool {
				if se, ok := n.(*ast.SelectorExpr); ok && core.ObjOf(info, se.X) == pObj && (se.Sel.Name == "val" || se.Sel.Name == "err") {
					uses = true
				}
				return true
			})
			if uses {
				o.Require(g.Dominates(recv, v), "a waiter reads the outcome before the decode finished")
			}
		}
		// the decode itself runs unlocked
		for _, d := range callVertices(g, "pdf.Decode") {
			o.At(fn.Site(d.Call, "decode"))
			o.Require(!st.MaybeAt[d.V], "the decode function runs with the lock held")
			o.Require(g.Dominates(ins[0].V, d.V), "the decode runs before the marker is visible to other goroutines")
		}
	})
}

func ruleReaderImmutable(c *core.Ctx) {
	const rule = "C18-R5"
	constructors := map[string]string{
		"pdf.NewReader":                  "constructor",
		"pdf.Open":                       "constructor: sets ownsReader before the Reader is handed out",
		"pdf.(*Reader).readXRef":         "called only from NewReader, fills unencrypted while the xref is read",
		"pdf.(*FileInfo).MakeReader":     "constructor for recovered files",
		"pdf.(*Reader).parseEncryptDict": "called only from the constructors, before the Reader is handed out (checked below)",
	}
	c.Check(rule, "pdf.Reader/writers", "a Reader is immutable after construction: its fields and the maps behind them are written only by the constructors, so concurrent Get/DecodeStream share no mutable state", func(o *core.Ob) {
		pkg := c.Prog.Pkg("pdf")
		n := 0
		for _, fn := range c.Prog.Funcs(pkg) {
			info := fn.Info()
			ast.Inspect(fn.Decl, func(m ast.Node) bool {
				var lhs []ast.Expr
				switch s := m.(type) {
				case *ast.AssignStmt:
					lhs = s.Lhs
				case *ast.IncDecStmt:
					lhs = []ast.Expr{s.X}
				case *ast.CallExpr:
					if k := core.CalleeKey(info, s); k == "builtin.delete" || k == "builtin.clear" {
						lhs = []ast.Expr{s.Args[0]}
					}
					// append(r.Errors, ...) is an assignment handled above
				}
				for _, l := range lhs {
					base := l
					for {
						if ix, ok := ast.Unparen(base).(*ast.IndexExpr); ok {
							base = ix.X
							continue
						}
						break
					}
					se, ok := ast.Unparen(base).(*ast.SelectorExpr)
					if !ok {
						continue
					}
					// r.meta.X = ... : walk down to the Reader
					root := se
					for {
						inner, ok := ast.Unparen(root.X).(*ast.SelectorExpr)
						if !ok {
							break
						}
						root = inner
					}
					t := info.TypeOf(root.X)
					if t == nil || !core.IsNamed(t, "pdf", "Reader") {
						continue
					}
					if sel := info.Selections[root]; sel == nil || sel.Kind() != types.FieldVal {
						continue
					}
					n++
					o.At(fn.Site(l, "writes Reader."+root.Sel.Name))
					if !allowedOrOnlyCalledBy(c, fn, func(k string) bool { _, ok := constructors[k]; return ok }, 0) {
						o.FailAt(fn.Site(l, ""), "%s writes Reader.%s after construction", fn.Key, root.Sel.Name)
					}
				}
				return true
			})
		}
		o.Shape(n >= 8, "only %d writes to Reader fields found, expected at least 8 (all in constructors)", n)
	})
	// the same through aliases: no Reader method other than the constructors (and Close) stores
	// through memory reachable from the Reader (e.g. through a *xRefEntry taken from the table)
	var ma *core.MutAnalysis
	pkgR := c.Prog.Pkg("pdf")
	nMeth := 0
	for _, fn := range c.Prog.Funcs(pkgR) {
		fn := fn
		if fn.Decl.Recv == nil || len(fn.Decl.Recv.List) != 1 {
			continue
		}
		if !core.IsNamed(fn.Info().TypeOf(fn.Decl.Recv.List[0].Type), "pdf", "Reader") {
			continue
		}
		if allowedOrOnlyCalledBy(c, fn, func(k string) bool { _, ok := constructors[k]; return ok }, 0) {
			continue // a constructor, or a helper only constructors call
		}
		nMeth++
		c.Check(rule, fn.Key+"/no-store", "the method stores nothing through memory reachable from its Reader (SSA may-write analysis over static calls and pdf's own interface implementations): concurrent calls share the Reader", func(o *core.Ob) {
			if ma == nil {
				ma = core.NewMutAnalysis(c.Prog)
				ma.ImplPkgs[core.ModulePath] = true
				ma.AppendIsWrite = true
				ma.ExemptTypes["pdf.scanner"] = "a scanner is created per call (rule fresh-scanner) and never stored in the Reader; its read position is its own state"
			}
			sf := ma.S.FuncValue(fn.Obj)
			if sf == nil || len(sf.Params) == 0 {
				core.Undecided("no SSA function for %s", fn.Key)
			}
			o.At(fn.Site(fn.Decl, "receiver "+sf.Params[0].Name()))
			before := len(ma.Visited)
			ws := ma.Mutations(sf, []ssa.Value{sf.Params[0]}, nil)
			o.Count(len(ma.Visited) - before + 1)
			seen := map[string]bool{}
			for _, w := range ws {
				pos := c.Prog.Pos(w.Pos)
				if seen[pos+w.What] {
					continue
				}
				seen[pos+w.What] = true
				if why, ok := readerStoreJustified[fn.Key+"|"+w.Fn]; ok {
					o.Fact("%s: %s (%s)", pos, w.What, why)
					continue
				}
				o.Sites = append(o.Sites, core.Site{Pos: pos, Func: w.Fn, Note: w.What})
				o.Fail("%s: %s in %s (call chain: %s)", pos, w.What, w.Fn, strings.Join(w.Chain, " -> "))
			}
		})
	}
	c.Floor(rule, 8)
	c.Check(rule, "pdf.(*Reader).readXRef/caller", "readXRef and parseEncryptDict are reachable only from the constructors", func(o *core.Ob) {
		pkg := c.Prog.Pkg("pdf")
		for _, fn := range c.Prog.Funcs(pkg) {
			for _, call := range core.CallsTo(fn.Info(), fn.Decl, true, "pdf.(*Reader).readXRef") {
				o.At(fn.Site(call, "calls readXRef"))
				o.Require(fn.Key == "pdf.NewReader", "%s calls readXRef (which writes Reader state)", fn.Key)
			}
			for _, call := range core.CallsTo(fn.Info(), fn.Decl, true, "pdf.(*Reader).parseEncryptDict") {
				o.At(fn.Site(call, "calls parseEncryptDict"))
				_, isCons := constructors[fn.Key]
				o.Require(isCons, "%s calls parseEncryptDict (which authenticates and stores the key) after construction", fn.Key)
			}
		}
	})
	c.Check(rule, "pdf.(*Reader).get/fresh-scanner", "every Get creates its own scanner; scanners are never stored in the Reader", func(o *core.Ob) {
		fn := c.Prog.Func("pdf", "(*Reader).scannerFrom")
		info := fn.Info()
		o.At(fn.Site(fn.Decl, ""))
		ns := core.CallsTo(info, fn.Decl, false, "pdf.newScanner")
		o.Require(len(ns) == 1, "scannerFrom does not create a new scanner")
		st := c.Prog.Pkg("pdf").Types.Scope().Lookup("Reader").Type().Underlying().(*types.Struct)
		for i := 0; i < st.NumFields(); i++ {
			if core.IsNamed(st.Field(i).Type(), "pdf", "scanner") {
				o.Fail("Reader has a scanner field (%s): scanners hold a read position and cannot be shared", st.Field(i).Name())
			}
		}
	})
}

// rulePackageState: package-level variables written after initialisation.
func rulePackageState(c *core.Ctx) {
	const rule = "C18-R6"
	type prot struct {
		lock string // mutex variable, or once variable
		once bool
	}
	table := map[string]prot{
		"pdf/font/cmap.predefinedCache":    {lock: "predefinedMu"},
		"pdf/font/mapping.cache":           {lock: "resourceMutex"},
		"pdf/font/mapping.reverseCache":    {lock: "resourceMutex"},
		"pdf/pieceinfo.registry":           {lock: "registryMu"},
		"pdf/graphics/color.cmykTransform": {lock: "cmykOnce", once: true},
	}
	// callee-requires-lock summaries: functions all of whose callers hold the lock
	lockedHelpers := map[string]string{
		"pdf/font/cmap.loadPredefinedLocked": "predefinedMu",
		"pdf/font/cmap.loadPredefined":       "predefinedMu", // follows usecmap parents; called only from loadPredefinedLocked
	}
	for _, short := range []string{"pdf", "pdf/font/cmap", "pdf/font/mapping", "pdf/graphics/color", "pdf/pieceinfo"} {
		short := short
		pkg := c.Prog.Pkg(short)
		// find package-level variables written inside functions
		written := map[types.Object][]core.Site{}
		for _, fn := range c.Prog.Funcs(pkg) {
			if fn.Decl.Name.Name == "init" && fn.Decl.Recv == nil {
				continue
			}
			info := fn.Info()
			ast.Inspect(fn.Decl, func(m ast.Node) bool {
				var lhs []ast.Expr
				switch s := m.(type) {
				case *ast.AssignStmt:
					lhs = s.Lhs
				case *ast.IncDecStmt:
					lhs = []ast.Expr{s.X}
				case *ast.CallExpr:
					if k := core.CalleeKey(info, s); k == "builtin.delete" || k == "builtin.clear" {
						lhs = []ast.Expr{s.Args[0]}
					}
				}
				for _, l := range lhs {
					base := l
					for {
						switch x := ast.Unparen(base).(type) {
						case *ast.IndexExpr:
							base = x.X
							continue
						case *ast.SelectorExpr:
							if _, isPkg := info.ObjectOf(identOf(x.X)).(*types.PkgName); !isPkg {
								base = x.X
								continue
							}
						case *ast.StarExpr:
							base = x.X
							continue
						}
						break
					}
					id, ok := ast.Unparen(base).(*ast.Ident)
					if !ok {
						continue
					}
					v, ok := info.ObjectOf(id).(*types.Var)
					if !ok || v.Pkg() == nil || v.Parent() != v.Pkg().Scope() {
						continue
					}
					written[v] = append(written[v], fn.Site(l, "written in "+fn.Key))
				}
				return true
			})
		}
		var objs []types.Object
		for o := range written {
			objs = append(objs, o)
		}
		sort.Slice(objs, func(i, j int) bool { return objs[i].Name() < objs[j].Name() })
		c.Check(rule, short+"/mutable-globals", "every package-level variable that is written after initialisation is in the table of lock-protected variables", func(o *core.Ob) {
			o.Count(len(objs) + 1)
			for _, v := range objs {
				key := short + "." + v.Name()
				o.Fact("%s written at %s", key, written[v][0].Pos)
				if _, ok := table[key]; !ok {
					if isSyncType(v.Type()) {
						continue
					}
					o.Sites = append(o.Sites, written[v]...)
					o.Fail("package-level variable %s is written at run time (%s) and is not known to be lock-protected", key, written[v][0].Pos)
				}
			}
		})
		for _, v := range objs {
			v := v
			key := short + "." + v.Name()
			p, ok := table[key]
			if !ok {
				continue
			}
			c.Check("C18-R1", key, "every access to this package-level variable holds its lock (or runs inside / after its sync.Once)", func(o *core.Ob) {
				lockObj := pkg.Types.Scope().Lookup(p.lock)
				if lockObj == nil {
					core.Undecided("lock %s not found", p.lock)
				}
				for _, fn := range c.Prog.Funcs(pkg) {
					info := fn.Info()
					if !core.Mentions(info, fn.Decl.Body, v) {
						continue
					}
					if p.once {
						checkOnce(o, fn, v, lockObj)
						continue
					}
					g := fn.Graph()
					lo := &core.LockOps{Info: info, IsMutex: core.MutexVar(info, lockObj)}
					st := lo.Analyze(g)
					for _, pr := range st.Problems {
						o.Fail("%s", pr)
					}
					helper := lockedHelpers[fn.Key] == p.lock
					for _, x := range g.Vs {
						if x.AST == nil || !mentionsOutsideLits(info, x.AST, v) {
							continue
						}
						o.At(fn.Site(x.AST, "accesses "+v.Name()))
						if helper {
							continue
						}
						if !st.HeldAt[x] {
							o.FailAt(fn.Site(x.AST, ""), "%s is accessed without holding %s", v.Name(), p.lock)
						}
					}
					if false {
						// (callers of locked helpers are checked below)
						for _, caller := range c.Prog.Funcs(pkg) {
							cg := caller.Graph()
							clo := &core.LockOps{Info: caller.Info(), IsMutex: core.MutexVar(caller.Info(), lockObj)}
							cst := clo.Analyze(cg)
							for _, cv := range callVertices(cg, fn.Key) {
								o.At(caller.Site(cv.Call, "calls locked helper"))
								if !cst.HeldAt[cv.V] && lockedHelpers[caller.Key] != p.lock {
									o.FailAt(caller.Site(cv.Call, ""), "%s requires %s to be held, but this caller does not hold it", fn.Key, p.lock)
								}
							}
						}
					}
				}
				// callers of functions that require the lock
				for hk, hl := range lockedHelpers {
					if hl != p.lock || !strings.HasPrefix(hk, short+".") {
						continue
					}
					if c.Prog.FuncOpt(short, strings.TrimPrefix(hk, short+".")) == nil {
						core.Undecided("locked helper %s no longer exists", hk)
					}
					for _, caller := range c.Prog.Funcs(pkg) {
						cg := caller.Graph()
						clo := &core.LockOps{Info: caller.Info(), IsMutex: core.MutexVar(caller.Info(), lockObj)}
						cst := clo.Analyze(cg)
						for _, cv := range callVertices(cg, hk) {
							o.At(caller.Site(cv.Call, "calls "+hk+" (requires "+hl+")"))
							if !cst.HeldAt[cv.V] && lockedHelpers[caller.Key] != p.lock {
								o.FailAt(caller.Site(cv.Call, ""), "%s requires %s to be held, but this caller does not hold it", hk, p.lock)
							}
						}
					}
				}
			})
		}
	}
}

func identOf(e ast.Expr) *ast.Ident {
	id, _ := ast.Unparen(e).(*ast.Ident)
	if id == nil {
		return &ast.Ident{Name: "_"}
	}
	return id
}

func isSyncType(t types.Type) bool {
	n := core.NamedOf(t)
	return n != nil && n.Obj().Pkg() != nil && (n.Obj().Pkg().Path() == "sync" || n.Obj().Pkg().Path() == "sync/atomic")
}

func mentionsOutsideLits(info *types.Info, n ast.Node, obj types.Object) bool {
	found := false
	ast.Inspect(n, func(m ast.Node) bool {
		if _, ok := m.(*ast.FuncLit); ok {
			return false
		}
		if id, ok := m.(*ast.Ident); ok && info.ObjectOf(id) == obj {
			found = true
		}
		return !found
	})
	return found
}

// checkOnce: writes to v only inside a func literal passed to once.Do; reads
// outside are dominated by the Do call.
func checkOnce(o *core.Ob, fn *core.Func, v types.Object, once types.Object) {
	info := fn.Info()
	g := fn.Graph()
	var doV *core.V
	var lit *ast.FuncLit
	for _, x := range g.Vs {
		if x.AST == nil {
			continue
		}
		for _, cs := range core.CallsIn(info, x.AST, false) {
			if se, ok := cs.Call.Fun.(*ast.SelectorExpr); ok && se.Sel.Name == "Do" && core.ObjOf(info, se.X) == once {
				doV = x
				if l, ok := cs.Call.Args[0].(*ast.FuncLit); ok {
					lit = l
				}
			}
		}
	}
	if doV == nil || lit == nil {
		o.Fail("%s uses %s without %s.Do(func)", fn.Key, v.Name(), once.Name())
		return
	}
	o.At(fn.Site(doV.AST, once.Name()+".Do"))
	// writes
	ast.Inspect(fn.Decl.Body, func(m ast.Node) bool {
		if as, ok := m.(*ast.AssignStmt); ok {
			for _, l := range as.Lhs {
				if core.ObjOf(info, l) == v {
					if !(as.Pos() >= lit.Pos() && as.End() <= lit.End()) {
						o.FailAt(fn.Site(as, ""), "%s is written outside %s.Do", v.Name(), once.Name())
					}
				}
			}
		}
		return true
	})
	for _, x := range g.Vs {
		if x == doV || x.AST == nil || !mentionsOutsideLits(info, x.AST, v) {
			continue
		}
		o.At(fn.Site(x.AST, "reads "+v.Name()))
		if !g.Dominates(doV, x) {
			o.FailAt(fn.Site(x.AST, ""), "%s is read on a path that bypasses %s.Do", v.Name(), once.Name())
		}
	}
}

var _ = packages.NeedName

// stores through Reader-reachable memory that are part of the design; key: method|function containing the store.
var readerStoreJustified = map[string]string{}

// ruleNoForeignAppend (C18-R7): append(x.f, ...) stores the new elements in
// the spare capacity of x.f's backing array when there is room.  If the
// result goes anywhere but back into x.f, the field still has its old length
// and the next append(x.f, ...) — from another goroutine, if x is shared
// like the security handler's key — writes the same memory.  In package pdf
// every append whose first argument is a struct field is assigned back to
// that field.
func ruleNoForeignAppend(c *core.Ctx, rule string, floor int, pkgs ...string) {
	c.Check(rule, strings.Join(pkgs, ",")+"/append-to-fields", "every append to a struct field's slice is assigned back to the same field (no shared backing array is written through a temporary)", func(o *core.Ob) {
		n := 0
		var fns []*core.Func
		for _, sp := range pkgs {
			fns = append(fns, c.Prog.Funcs(c.Prog.Pkg(sp))...)
		}
		for _, fn := range fns {
			info := fn.Info()
			assigned := map[*ast.CallExpr]ast.Expr{}
			ast.Inspect(fn.Decl.Body, func(m ast.Node) bool {
				if as, ok := m.(*ast.AssignStmt); ok && len(as.Lhs) == len(as.Rhs) {
					for i, r := range as.Rhs {
						if call, ok := ast.Unparen(r).(*ast.CallExpr); ok {
							assigned[call] = as.Lhs[i]
						}
					}
				}
				return true
			})
			ast.Inspect(fn.Decl.Body, func(m ast.Node) bool {
				call, ok := m.(*ast.CallExpr)
				if !ok || len(call.Args) < 2 {
					return true
				}
				id, ok := call.Fun.(*ast.Ident)
				if !ok || id.Name != "append" {
					return true
				}
				if _, isB := info.ObjectOf(id).(*types.Builtin); !isB {
					return true
				}
				sel, ok := ast.Unparen(call.Args[0]).(*ast.SelectorExpr)
				if !ok {
					return true
				}
				if f, ok := info.ObjectOf(sel.Sel).(*types.Var); !ok || !f.IsField() {
					return true
				}
				n++
				o.Count(1)
				lhs := assigned[call]
				if lhs != nil && c.Prog.Src(lhs) != c.Prog.Src(sel) {
					// tmp := append(x.f, ...); x.f = tmp  (the very next statement)
					if lobj := core.ObjOf(info, lhs); lobj != nil {
						g := fn.Graph()
						if v := g.VertexOf(call); v != nil && len(v.Succs) == 1 {
							if as2, isAs := v.Succs[0].To.AST.(*ast.AssignStmt); isAs && len(as2.Lhs) == 1 && len(as2.Rhs) == 1 && as2.Tok == token.ASSIGN &&
								c.Prog.Src(as2.Lhs[0]) == c.Prog.Src(sel) && core.ObjOf(info, as2.Rhs[0]) == lobj {
								return true
							}
						}
					}
				}
				if lhs == nil || c.Prog.Src(lhs) != c.Prog.Src(sel) {
					where := "used as a value"
					if lhs != nil {
						where = "assigned to " + c.Prog.Src(lhs)
					}
					o.FailAt(fn.Site(call, ""), "%s: %s is %s, not stored back into %s: the appended elements are written into the field's shared backing array while the field keeps its length", c.Prog.Pos(call.Pos()), c.Prog.Src(call), where, c.Prog.Src(sel))
				}
				return true
			})
		}
		o.Count(1)
		o.Shape(n >= floor, "only %d appends to fields found", n)
	})
}

// ruleCloseOnce (C18-R8): decoded-stream readers wrap pooled decompressors
// (pooledZlibReader.Close puts the zlib reader back into a package-level
// sync.Pool).  Closing such a reader twice puts the same decompressor into
// the pool twice; the next two streams opened anywhere in the process then
// share it and read each other's data.  For every local variable that holds
// the result of DecodeStream / Stream.NewReader / Cursor.StreamReader /
// RawStreamReader: a deferred Close excludes any explicit Close, and no
// explicit Close reaches another one without the variable being reassigned.
func ruleCloseOnce(c *core.Ctx) {
	acquire := map[string]bool{"pdf.DecodeStream": true, "pdf.RawStreamReader": true, "pdf.(*Stream).NewReader": true, "pdf.Cursor.StreamReader": true, "pdf.Cursor.DecodeStream": true}
	n := 0
	var bad []string
	var badSites []core.Site
	for _, pkg := range c.Prog.RepoPkgs() {
		for _, fn := range c.Prog.Funcs(pkg) {
			info := fn.Info()
			g := fn.Graph()
			// variables holding acquired readers
			vars := map[types.Object]bool{}
			ast.Inspect(fn.Decl.Body, func(m ast.Node) bool {
				as, ok := m.(*ast.AssignStmt)
				if !ok || len(as.Rhs) != 1 {
					return true
				}
				call, ok := ast.Unparen(as.Rhs[0]).(*ast.CallExpr)
				if !ok || !acquire[core.CalleeKey(info, call)] {
					return true
				}
				if obj := core.ObjOf(info, as.Lhs[0]); obj != nil {
					vars[obj] = true
				}
				return true
			})
			for x := range vars {
				n++
				deferred := false
				for _, ds := range g.Defers {
					closes := false
					ast.Inspect(ds.Call, func(m ast.Node) bool {
						if call, ok := m.(*ast.CallExpr); ok {
							if sel, ok := call.Fun.(*ast.SelectorExpr); ok && sel.Sel.Name == "Close" && core.ObjOf(info, sel.X) == x {
								closes = true
							}
						}
						return true
					})
					if closes {
						deferred = true
					}
				}
				var explicit []*core.V
				for _, v := range g.Vs {
					if v.AST == nil {
						continue
					}
					if _, isDefer := v.AST.(*ast.DeferStmt); isDefer {
						continue
					}
					var node ast.Node = v.AST
					if v.Cond != nil && v.Cond.Expr != nil {
						node = v.Cond.Expr
					}
					found := false
					ast.Inspect(node, func(m ast.Node) bool {
						if _, isLit := m.(*ast.FuncLit); isLit {
							return false
						}
						if call, ok := m.(*ast.CallExpr); ok {
							if sel, ok := call.Fun.(*ast.SelectorExpr); ok && sel.Sel.Name == "Close" && core.ObjOf(info, sel.X) == x {
								found = true
							}
						}
						return true
					})
					if found {
						explicit = append(explicit, v)
					}
				}
				if deferred && len(explicit) > 0 {
					// an explicit close on a path that also runs the deferred one: unless the function cannot return after it... it always does
					bad = append(bad, c.Prog.Pos(explicit[0].AST.Pos())+": "+x.Name()+" is closed explicitly in "+fn.Key+" although a deferred Close of the same reader is pending")
					badSites = append(badSites, fn.Site(explicit[0].AST, "second close"))
				}
				defs := defVertices(g, x)
				for _, e1 := range explicit {
					for _, e2 := range explicit {
						if e1 != e2 && g.ReachFrom(e1, false, core.AvoidVs(defs...))[e2] {
							bad = append(bad, c.Prog.Pos(e2.AST.Pos())+": "+x.Name()+" is closed at "+c.Prog.Pos(e1.AST.Pos())+" and again here in "+fn.Key)
							badSites = append(badSites, fn.Site(e2.AST, "second close"))
						}
					}
				}
			}
		}
	}
	c.Check("C18-R8", "decoded-readers/close-once", "no decoded-stream reader is closed twice on one path (its pooled decompressor would be handed to two later streams)", func(o *core.Ob) {
		o.Count(n)
		o.Fact("%d reader variables inspected", n)
		o.Shape(n >= 5, "only %d reader variables found", n)
		o.Sites = append(o.Sites, badSites...)
		for _, b := range bad {
			o.Fail("%s", b)
		}
	})
}

// rulePoolPutOwnership (C18-R9): an object taken from a sync.Pool may be put
// back only when nothing else can still use it.  Where the object (or an
// alias) is captured by a function literal of the same function — the
// encoder's write and close closures keep the zlib writer — the Put must be
// inside such a literal (the owner's Close), not in the function body or in a
// defer of the function, which would run while the returned encoder is still
// alive and hand the same compressor to the next caller.
func rulePoolPutOwnership(c *core.Ctx, rule string) {
	c.Check(rule, "pdf/pool-put", "no pooled object is put back by the function that hands it out inside a closure", func(o *core.Ob) {
		pkg := c.Prog.Pkg("pdf")
		n := 0
		for _, fn := range c.Prog.Funcs(pkg) {
			info := fn.Info()
			for _, cs := range core.CallsIn(info, fn.Decl, true) {
				if cs.Key != "(*sync.Pool).Put" && cs.Key != "sync.(*Pool).Put" {
					continue
				}
				n++
				o.Count(1)
				o.At(fn.Site(cs.Call, "returned to the pool"))
				x := core.ObjOf(info, cs.Call.Args[0])
				if x == nil {
					continue
				}
				// aliases: y = x
				al := map[types.Object]bool{x: true}
				for changed := true; changed; {
					changed = false
					ast.Inspect(fn.Decl.Body, func(m ast.Node) bool {
						if as, ok := m.(*ast.AssignStmt); ok && len(as.Lhs) == len(as.Rhs) {
							for i := range as.Lhs {
								if al[core.ObjOf(info, as.Rhs[i])] {
									if l := core.ObjOf(info, as.Lhs[i]); l != nil && !al[l] {
										al[l] = true
										changed = true
									}
								}
							}
						}
						return true
					})
				}
				putLit := core.EnclosingFuncLit(fn.Decl, cs.Call)
				captured := false
				ast.Inspect(fn.Decl.Body, func(m ast.Node) bool {
					fl, ok := m.(*ast.FuncLit)
					if !ok || fl == putLit {
						return true
					}
					// a deferred literal that only wraps the Put itself is the same thing as the Put
					ast.Inspect(fl.Body, func(k ast.Node) bool {
						if id, ok := k.(*ast.Ident); ok && al[info.ObjectOf(id)] {
							captured = true
						}
						return true
					})
					return true
				})
				if captured && putLit == nil {
					o.FailAt(fn.Site(cs.Call, ""), "%s: %s is put back into the pool by %s itself although closures created in the same function keep using it: the next caller of Get shares the object with the encoder that is still open", c.Prog.Pos(cs.Call.Pos()), x.Name(), fn.Key)
				}
			}
		}
		o.Shape(n >= 2, "only %d Pool.Put calls found", n)
	})
}

// ruleCacheKeyType (C18-R10): the extractor's cache is keyed by (reference,
// requested type).  The type component must be the static type parameter
// (reflect.TypeFor[T]()): reflect.TypeOf of a value is nil for every
// interface type, which would make all interface-typed decodes of a
// reference share one cache entry (a decode for one type returns the cached
// value of another, or nil).  Every extractorKey literal in package pdf takes
// its tp from reflect.TypeFor, directly, through a local, or through a
// parameter that every caller fills that way.
func ruleCacheKeyType(c *core.Ctx) {
	c.Check("C18-R10", "pdf.extractorKey/type", "the type component of every cache key is the requested static type (reflect.TypeFor), never the dynamic type of a value", func(o *core.Ob) {
		pkg := c.Prog.Pkg("pdf")
		n := 0
		var fromTypeFor func(fn *core.Func, g *core.Graph, at *core.V, e ast.Expr, depth int) (bool, string)
		fromTypeFor = func(fn *core.Func, g *core.Graph, at *core.V, e ast.Expr, depth int) (bool, string) {
			info := fn.Info()
			for _, vc := range valueCases(g, at, e, 3) {
				x := ast.Unparen(vc.Expr)
				if call, ok := x.(*ast.CallExpr); ok {
					if core.CalleeKey(info, call) == "reflect.TypeFor" {
						continue
					}
					return false, core.ExprStr(call)
				}
				// a field of a key that was built elsewhere (key.tp) or a parameter
				if id, ok := x.(*ast.Ident); ok && depth > 0 {
					if p := paramObj(fn, id.Name); p != nil && p == info.ObjectOf(id) && !fn.Obj.Exported() {
						// every caller in the package
						idx := -1
						k := 0
						for _, f := range fn.Decl.Type.Params.List {
							for _, nm := range f.Names {
								if info.ObjectOf(nm) == p {
									idx = k
								}
								k++
							}
						}
						callers := 0
						for _, other := range c.Prog.Funcs(pkg) {
							if other.Decl.Body == nil {
								continue
							}
							og := other.Graph()
							for _, v := range og.Vs {
								if v.AST == nil {
									continue
								}
								for _, cs := range core.CallsIn(other.Info(), v.AST, false) {
									if cs.Fn == fn.Obj && idx >= 0 && idx < len(cs.Call.Args) {
										callers++
										if ok, why := fromTypeFor(other, og, v, cs.Call.Args[idx], depth-1); !ok {
											return false, why
										}
									}
								}
							}
						}
						if callers > 0 {
							continue
						}
					}
				}
				if sel, ok := x.(*ast.SelectorExpr); ok && sel.Sel.Name == "tp" {
					continue // the tp of another key, itself checked where that key is built
				}
				return false, core.ExprStr(x)
			}
			return true, ""
		}
		for _, fn := range c.Prog.Funcs(pkg) {
			if fn.Decl.Body == nil || c.Prog.IsTestFile(fn.Decl.Pos()) {
				continue
			}
			info := fn.Info()
			has := false
			ast.Inspect(fn.Decl.Body, func(m ast.Node) bool {
				if cl, ok := m.(*ast.CompositeLit); ok && core.IsNamed(info.TypeOf(cl), "pdf", "extractorKey") {
					has = true
				}
				return !has
			})
			if !has {
				continue
			}
			g := fn.Graph()
			for _, v := range g.Vs {
				if v.AST == nil {
					continue
				}
				if _, isLoop := v.AST.(*ast.RangeStmt); isLoop {
					continue
				}
				if _, isLoop := v.AST.(*ast.ForStmt); isLoop {
					continue
				}
				ast.Inspect(v.AST, func(m ast.Node) bool {
					if _, isLit := m.(*ast.FuncLit); isLit {
						return false
					}
					cl, ok := m.(*ast.CompositeLit)
					if !ok || !core.IsNamed(info.TypeOf(cl), "pdf", "extractorKey") {
						return true
					}
					f := compositeFields(info, cl)
					tp := f["tp"]
					if tp == nil {
						return true // filled in later through key.tp = ...: checked below
					}
					n++
					o.At(fn.Site(cl, "cache key"))
					if ok, why := fromTypeFor(fn, g, v, tp, 2); !ok {
						o.FailAt(fn.Site(cl, ""), "the type of this cache key is %s, not reflect.TypeFor[T](): for interface types the dynamic type of a zero value is nil, and all of them share one cache entry", why)
					}
					return true
				})
				if as, ok := v.AST.(*ast.AssignStmt); ok && len(as.Lhs) == len(as.Rhs) {
					for i, l := range as.Lhs {
						if sel, ok := ast.Unparen(l).(*ast.SelectorExpr); ok && sel.Sel.Name == "tp" && core.IsNamed(info.TypeOf(sel.X), "pdf", "extractorKey") {
							n++
							if ok, why := fromTypeFor(fn, g, v, as.Rhs[i], 2); !ok {
								o.FailAt(fn.Site(as, ""), "the type of this cache key is %s, not reflect.TypeFor[T]()", why)
							}
						}
					}
				}
			}
		}
		o.Shape(n >= 3, "expected at least three cache keys to be built in package pdf, found %d", n)
	})
}
