package props

import (
	"fmt"
	"go/ast"
	"go/token"
	"go/types"
	"sort"
	"strings"

	"golang.org/x/tools/go/ssa"

	"pdfverif/internal/core"
)

func init() {
	register(&Property{
		ID:       "C17",
		Patterns: []string{"./internal/pdftree", "./nametree", "./numtree"},
		Run:      runC17,
		Explanation: "Static rules on the name/number tree writer and readers: (R1) node shapes — leaf and intermediate node literals carry /Limits, no root-producing function emits /Limits, and finish hands out only references produced by the root writers (or the zero reference for an empty map); " +
			"(R2) /Limits is built from the first and last key of exactly the slice whose references form /Kids (intermediate) or whose pairs form the leaf array, and the merged node's min/max come from the same children; (R3) addEntry rejects a key that is not strictly greater than the previous one before buffering it, WriteMap sorts its keys before iterating, and leaves are completed at the fan-out bound; " +
			"(R4) the key codecs accept every key they can produce (decode has no key-dependent rejection) and the writer's keys (Kids, Limits, Names/Nums) are the keys both readers look at, both readers guard kid references with a visited-set and a depth bound; (R5) an empty map yields no tree. " +
			"Decides these structural conditions for all key sets; does NOT decide lookup results as values or the collapse arithmetic.",
	})
}

func runC17(c *core.Ctx) {
	const pk = "pdf/internal/pdftree"
	defer rulePutOwnsObject(c)
	defer ruleIteratorStateFresh(c)
	defer ruleReadersPure(c)
	defer ruleAliasHygiene(c, [3]string{"C17-R10", "C17-R11", "C17-R12"}, "pdf/internal/pdftree")
	c.Check("C17-R1", pk+".node-shapes", "every non-root node is written with /Limits and no root is: the dictionary literals of the leaf/intermediate writers contain Limits, those of the root writers do not", func(o *core.Ob) {
		pkg := c.Prog.Pkg(pk)
		nNodes, nRoots := 0, 0
		for _, fn := range c.Prog.Funcs(pkg) {
			info := fn.Info()
			ast.Inspect(fn.Decl.Body, func(n ast.Node) bool {
				cl, ok := n.(*ast.CompositeLit)
				if !ok || !core.IsNamed(info.TypeOf(cl), "pdf", "Dict") {
					return true
				}
				keys := map[string]bool{}
				for _, el := range cl.Elts {
					if kv, ok := el.(*ast.KeyValueExpr); ok {
						if k, ok := core.StringConst(info, kv.Key); ok {
							keys[k] = true
						} else {
							keys[core.ExprStr(kv.Key)] = true
						}
					}
				}
				isTreeNode := keys["Kids"] || keys["kc.leafKey()"]
				if !isTreeNode {
					return true
				}
				o.At(fn.Site(cl, "node literal "+joinSet(keys)))
				// root or not, by what happens to the reference the node is
				// written under: returned to the caller (the tree root), or
				// recorded in a node descriptor for the level above
				root, known := nodeRole(fn, cl)
				if !known {
					root, known = strings.Contains(fn.Key, "writeRoot"), strings.Contains(fn.Key, "writeRoot") || strings.Contains(fn.Key, "completePendingLeaf") || strings.Contains(fn.Key, "mergeNodes")
				}
				if !known {
					o.Unrec("%s: cannot tell whether the node written here is the root", c.Prog.Pos(cl.Pos()))
					return true
				}
				if root {
					nRoots++
					if keys["Limits"] {
						o.FailAt(fn.Site(cl, ""), "the root node is written with /Limits")
					}
				} else {
					nNodes++
					if !keys["Limits"] {
						o.FailAt(fn.Site(cl, ""), "a non-root node is written without /Limits (lookups descend by Limits)")
					}
				}
				return true
			})
		}
		o.Shape(nNodes >= 1 && nRoots >= 1, "expected non-root and root node literals, found %d/%d", nNodes, nRoots)
	})
	c.Check("C17-R1", pk+".finish/root-only", "the reference handed out as the tree root was produced by a root writer (a node written as a non-root carries /Limits and must not become the root)", func(o *core.Ob) {
		finish := c.Prog.Func(pk, "(*treeWriter).finish")
		// finish and the methods of the writer it hands its result over to (return w.finishFromTail()):
		// their returns are the returns of finish
		chain := []*core.Func{finish}
		inChain := map[*core.Func]bool{finish: true}
		for i := 0; i < len(chain) && i < 4; i++ {
			f := chain[i]
			for _, r := range f.Graph().Returns() {
				rs := r.AST.(*ast.ReturnStmt)
				if len(rs.Results) != 1 {
					continue
				}
				call, ok := ast.Unparen(rs.Results[0]).(*ast.CallExpr)
				if !ok || strings.Contains(core.CalleeKey(f.Info(), call), "writeRoot") {
					continue
				}
				if callee := core.Callee(f.Info(), call); callee != nil && callee.Pkg() == f.Obj.Pkg() {
					if cf := c.Prog.FuncOf(callee.Origin()); cf != nil && cf.Decl.Body != nil && !inChain[cf] && strings.Contains(cf.Key, "treeWriter") {
						inChain[cf] = true
						chain = append(chain, cf)
					}
				}
			}
		}
		n := 0
		for _, fn := range chain {
			g := fn.Graph()
			info := fn.Info()
			for _, r := range g.Returns() {
				rs := r.AST.(*ast.ReturnStmt)
				src := c.Prog.Src(rs)
				o.At(fn.Site(rs, src))
				if len(rs.Results) == 1 {
					call, ok := rs.Results[0].(*ast.CallExpr)
					if ok {
						if callee := core.Callee(info, call); callee != nil {
							if cf := c.Prog.FuncOf(callee.Origin()); cf != nil && inChain[cf] {
								continue // analysed as part of the chain
							}
						}
					}
					o.Require(ok && strings.Contains(core.CalleeKey(info, call), "writeRoot"), "finish returns %s", src)
					n++
					continue
				}
				if !core.IsNil(info, rs.Results[1]) {
					continue
				}
				if k, ok := core.IntConst(info, rs.Results[0]); ok && k == 0 {
					continue
				}
				// the only other admissible form: the already-root node when its depth is zero is excluded above;
				// a node reference may be returned only under the negation of `depth > 0`, i.e. never for a merged node
				ok := g.GuardedBy(r, func(a core.Atom) bool {
					return a.Neg && strings.Contains(strings.ReplaceAll(core.ExprStr(a.Expr), " ", ""), "root.depth>0")
				})
				if !ok {
					// any other way of knowing that the node's depth is not positive
					var depthSel ast.Expr
					if sel, isSel := ast.Unparen(rs.Results[0]).(*ast.SelectorExpr); isSel {
						base := core.ObjOf(info, sel.X)
						ast.Inspect(fn.Decl.Body, func(n ast.Node) bool {
							if s2, ok := n.(*ast.SelectorExpr); ok && s2.Sel.Name == "depth" && base != nil && core.ObjOf(info, s2.X) == base {
								depthSel = s2
							}
							return true
						})
					}
					if depthSel != nil {
						pos := &ast.BinaryExpr{X: depthSel, Op: token.GTR, Y: &ast.BasicLit{Kind: token.INT, Value: "0"}}
						holds, _, decided := c.Prog.Implies(core.Formula{Fn: fn, Atoms: g.DominatingAtoms(r)}, core.Formula{Fn: fn, Atoms: []core.Atom{{Expr: pos, Neg: true}}})
						ok = decided && holds
					}
				}
				if !ok {
					o.FailAt(fn.Site(rs, ""), "finish returns the node reference %s, which was written as a non-root node (with /Limits)", core.ExprStr(rs.Results[0]))
				}
			}
		}
		o.Shape(n >= 1, "expected the root writers to be used, found %d", n)
		// A node that was written as a non-root (leaf or merged) carries /Limits.
		// finish therefore wraps it: there is a return of a root writer's result
		// (a function all of whose node literals lack /Limits) under "depth == 0"
		// (a single completed leaf) and one under "depth > 0" (a merged node).
		rootWriters := map[*types.Func]bool{}
		for _, f := range c.Prog.Funcs(c.Prog.Pkg(pk)) {
			if f.Decl.Body == nil || !strings.Contains(f.Key, "treeWriter") {
				continue
			}
			lits, withLimits := 0, 0
			ast.Inspect(f.Decl.Body, func(m ast.Node) bool {
				if cl, ok := m.(*ast.CompositeLit); ok && core.IsNamed(f.Info().TypeOf(cl), "pdf", "Dict") {
					lits++
					for _, el := range cl.Elts {
						if kv, ok := el.(*ast.KeyValueExpr); ok {
							if k, isS := core.StringConst(f.Info(), kv.Key); isS && k == "Limits" {
								withLimits++
							}
						}
					}
				}
				return true
			})
			if lits > 0 && withLimits == 0 {
				rootWriters[f.Obj] = true
			}
		}
		// ... or that only forward to such a function
		for changed := true; changed; {
			changed = false
			for _, f := range c.Prog.Funcs(c.Prog.Pkg(pk)) {
				if f.Decl.Body == nil || rootWriters[f.Obj] || !strings.Contains(f.Key, "treeWriter") {
					continue
				}
				hasLit := false
				ast.Inspect(f.Decl.Body, func(m ast.Node) bool {
					if cl, ok := m.(*ast.CompositeLit); ok && core.IsNamed(f.Info().TypeOf(cl), "pdf", "Dict") {
						hasLit = true
					}
					return true
				})
				if hasLit {
					continue
				}
				rets, fwd := 0, 0
				ast.Inspect(f.Decl.Body, func(m ast.Node) bool {
					if rs, ok := m.(*ast.ReturnStmt); ok {
						rets++
						if len(rs.Results) == 1 {
							if call, ok := ast.Unparen(rs.Results[0]).(*ast.CallExpr); ok {
								if cal := core.Callee(f.Info(), call); cal != nil && rootWriters[cal.Origin()] {
									fwd++
								}
							}
						}
					}
					return true
				})
				if rets > 0 && rets == fwd {
					rootWriters[f.Obj] = true
					changed = true
				}
			}
		}
		leafWrapped, mergedWrapped := false, false
		anyRootReturns := false
		for _, fn := range chain {
			g := fn.Graph()
			info := fn.Info()
			var rootReturns []*core.V
			for _, r := range g.Returns() {
				rs := r.AST.(*ast.ReturnStmt)
				if len(rs.Results) != 1 {
					continue
				}
				call, ok := ast.Unparen(rs.Results[0]).(*ast.CallExpr)
				if !ok {
					continue
				}
				callee := core.Callee(info, call)
				if callee == nil || !rootWriters[callee.Origin()] {
					continue
				}
				rootReturns = append(rootReturns, r)
			}
			// the root may also be written in place: a return that is dominated by a
			// Put of a Limits-free node literal in finish itself
			for _, r := range g.Returns() {
				rs := r.AST.(*ast.ReturnStmt)
				if len(rs.Results) != 2 {
					continue
				}
				for _, pv := range callVerticesSuffix(g, ".Put") {
					if len(pv.Call.Args) != 2 || !g.Dominates(pv.V, r) {
						continue
					}
					free := true
					found := false
					for _, vc := range valueCases(g, pv.V, pv.Call.Args[1], 2) {
						cl, ok := ast.Unparen(vc.Expr).(*ast.CompositeLit)
						if !ok {
							free = false
							continue
						}
						found = true
						for _, el := range cl.Elts {
							if kv, ok := el.(*ast.KeyValueExpr); ok {
								if k, isS := core.StringConst(info, kv.Key); isS && k == "Limits" {
									free = false
								}
							}
						}
					}
					// the nearest Put: no other Put between it and the return
					if found && free {
						rootReturns = append(rootReturns, r)
					}
				}
			}
			for _, r := range rootReturns {
				rs := r.AST.(*ast.ReturnStmt)
				if g.GuardedBy(r, func(a core.Atom) bool {
					cmp, ok := a.AsCmp()
					if !ok {
						return false
					}
					_, name, isSel := selName(cmp.L)
					k, isK := core.IntConst(info, cmp.R)
					return isSel && name == "depth" && isK && k == 0 && cmp.Op == token.EQL
				}) {
					leafWrapped = true
					o.At(fn.Site(rs, "a single completed leaf is wrapped in a root"))
				}
				if g.GuardedBy(r, func(a core.Atom) bool {
					cmp, ok := a.AsCmp()
					if !ok {
						return false
					}
					_, name, isSel := selName(cmp.L)
					k, isK := core.IntConst(info, cmp.R)
					return isSel && name == "depth" && isK && ((k == 0 && (cmp.Op == token.GTR || cmp.Op == token.NEQ)) || (k == 1 && cmp.Op == token.GEQ))
				}) {
					mergedWrapped = true
					o.At(fn.Site(rs, "a merged node is wrapped in a root"))
				}
			}
			if len(rootReturns) > 0 {
				anyRootReturns = true
			}
		}
		if len(rootWriters) == 0 && !anyRootReturns {
			o.Unrec("no root writer (a function whose node literals all lack /Limits) was found")
		} else {
			o.Require(leafWrapped, "a single completed leaf (depth 0, written with /Limits) is not wrapped in a Limits-free root: a tree with exactly one full leaf gets a root with /Limits")
			o.Require(mergedWrapped, "a merged node (depth > 0, written with /Limits) is not wrapped in a Limits-free root")
		}
	})
	c.Check("C17-R2", pk+".limits-provenance", "/Limits is [least key, greatest key] of exactly the children listed, and the range recorded for the node (which the next level's /Limits are built from) is the same", func(o *core.Ob) {
		pkg := c.Prog.Pkg(pk)
		nodes := 0
		for _, fn := range c.Prog.Funcs(pkg) {
			if fn.Decl.Body == nil || c.Prog.IsTestFile(fn.Decl.Pos()) || !strings.Contains(fn.Key, "treeWriter") {
				continue
			}
			info := fn.Info()
			g := fn.Graph()
			for _, v := range g.Vs {
				if v.AST == nil {
					continue
				}
				if _, isLoop := v.AST.(*ast.RangeStmt); isLoop {
					continue
				}
				if _, isLoop := v.AST.(*ast.ForStmt); isLoop {
					continue
				}
				ast.Inspect(v.AST, func(m ast.Node) bool {
					cl, ok := m.(*ast.CompositeLit)
					if !ok || !core.IsNamed(info.TypeOf(cl), "pdf", "Dict") {
						return true
					}
					var limits *ast.CompositeLit
					var listKey string
					var list ast.Expr
					for _, el := range cl.Elts {
						kv, ok := el.(*ast.KeyValueExpr)
						if !ok {
							continue
						}
						if k, isS := core.StringConst(info, kv.Key); isS && k == "Limits" {
							limits, _ = ast.Unparen(kv.Value).(*ast.CompositeLit)
						} else {
							listKey = strings.ReplaceAll(core.ExprStr(kv.Key), " ", "")
							list = kv.Value
						}
					}
					if limits == nil || len(limits.Elts) != 2 || list == nil {
						return true
					}
					nodes++
					o.At(fn.Site(cl, "node with /Limits"))
					unwrap := func(e ast.Expr) ast.Expr {
						// kc.encode(X) -> X
						if call, ok := ast.Unparen(e).(*ast.CallExpr); ok && len(call.Args) == 1 && strings.HasSuffix(strings.ReplaceAll(core.ExprStr(call.Fun), " ", ""), ".encode") {
							return call.Args[0]
						}
						return e
					}
					lo := resolveText(g, v, unwrap(limits.Elts[0]), 4)
					hi := resolveText(g, v, unwrap(limits.Elts[1]), 4)
					// the listed children: the slice the list (entries / kids) is built from
					var listObj types.Object
					le := ast.Unparen(list)
					if conv, ok := le.(*ast.CallExpr); ok && len(conv.Args) == 1 {
						le = ast.Unparen(conv.Args[0])
					}
					listObj = core.ObjOf(info, le)
					var src ast.Expr
					var srcAt *core.V
					leaf := false
					if listObj != nil {
						for _, h := range loopHeads(g) {
							rs := h.Cond.Range
							if rs == nil {
								continue
							}
							fills := false
							ast.Inspect(rs.Body, func(k ast.Node) bool {
								if as, ok := k.(*ast.AssignStmt); ok {
									for i, l := range as.Lhs {
										if core.ObjOf(info, l) == listObj {
											fills = true
										}
										if ix, isIx := ast.Unparen(l).(*ast.IndexExpr); isIx && core.ObjOf(info, ix.X) == listObj {
											fills = true
										}
										_ = i
									}
									if strings.Contains(c.Prog.Src(as), ".value") {
										leaf = true
									}
								}
								return true
							})
							if fills {
								src, srcAt = rs.X, h
							}
						}
					}
					if src == nil {
						o.Unrec("%s: the loop that lists the children of the node at %s was not found", fn.Key, c.Prog.Pos(cl.Pos()))
						return true
					}
					s := resolveText(g, srcAt, src, 4)
					wantLo, wantHi := s+"[0].minKey", s+"[len("+s+")-1].maxKey"
					if leaf {
						wantLo, wantHi = s+"[0].key", s+"[len("+s+")-1].key"
					}
					o.Fact("%s: %s from %s, /Limits [%s, %s]", fn.Key, listKey, s, lo, hi)
					if lo != wantLo {
						o.FailAt(fn.Site(limits, ""), "the lower /Limits entry is %s, the least key of the listed children is %s", lo, wantLo)
					}
					if hi != wantHi {
						o.FailAt(fn.Site(limits, ""), "the upper /Limits entry is %s, the greatest key of the listed children is %s", hi, wantHi)
					}
					// the record kept for the node: a nodeInfo value created in this function
					recs := 0
					for _, rv := range g.Vs {
						if rv.AST == nil {
							continue
						}
						var bases []ast.Expr
						switch x := rv.AST.(type) {
						case *ast.AssignStmt:
							if len(x.Lhs) == len(x.Rhs) {
								for i, r := range x.Rhs {
									rr := ast.Unparen(r)
									if u, ok := rr.(*ast.UnaryExpr); ok && u.Op == token.AND {
										rr = ast.Unparen(u.X)
									}
									if rcl, ok := rr.(*ast.CompositeLit); ok && strings.Contains(core.TypeString(info.TypeOf(rcl)), "nodeInfo") {
										bases = append(bases, rcl)
										_ = i
									}
									if st, ok := rr.(*ast.StarExpr); ok && strings.Contains(core.TypeString(info.TypeOf(st)), "nodeInfo") {
										// merged := *first: the record is the local on the left
										bases = append(bases, x.Lhs[i])
									}
								}
							}
						}
						for _, base := range bases {
							recs++
							// a literal is complete where it is written; a copy that is
							// patched field by field is complete at the function's exits
							at := rv
							if _, isLit := ast.Unparen(base).(*ast.CompositeLit); !isLit {
								for _, ex := range g.Returns() {
									if g.PathExists(rv, ex, nil) {
										at = ex
									}
								}
							}
							rmin := fieldText(g, at, base, "minKey", 4)
							rmax := fieldText(g, at, base, "maxKey", 4)
							o.At(fn.Site(rv.AST, "node record"))
							if rmin != lo {
								o.FailAt(fn.Site(rv.AST, ""), "the node is recorded with least key %s but written with /Limits lower bound %s: the parent's /Limits are built from the record", rmin, lo)
							}
							if rmax != hi {
								o.FailAt(fn.Site(rv.AST, ""), "the node is recorded with greatest key %s but written with /Limits upper bound %s: the parent's /Limits are built from the record, and lookups above its bound skip the node", rmax, hi)
							}
						}
					}
					if recs == 0 {
						o.Unrec("%s: the record kept for the node written at %s was not found", fn.Key, c.Prog.Pos(cl.Pos()))
					}
					return true
				})
			}
		}
		o.Shape(nodes >= 2, "expected a leaf and an intermediate node with /Limits, found %d", nodes)
	})
	c.Check("C17-R3", pk+".(*treeWriter).addEntry", "keys must arrive strictly ascending: a key not greater than the previous one is rejected before it is buffered; a full leaf is completed at the fan-out bound", func(o *core.Ob) {
		fn := c.Prog.Func(pk, "(*treeWriter).addEntry")
		g := fn.Graph()
		var buf *core.V
		for _, v := range g.Vs {
			if as, ok := v.AST.(*ast.AssignStmt); ok && strings.HasSuffix(core.ExprStr(as.Lhs[0]), ".pendingLeaf") {
				buf = v
				o.At(fn.Site(as, "buffers the entry"))
			}
		}
		if buf == nil {
			o.Count(1)
			o.Unrec("no assignment to the pending leaf was found in addEntry (the buffer is kept in another form): where the entry is buffered is not located")
			return
		}
		info := fn.Info()
		key := paramObj(fn, "key")
		var hasE, lastK ast.Expr
		ast.Inspect(fn.Decl.Body, func(n ast.Node) bool {
			if sel, ok := n.(*ast.SelectorExpr); ok {
				switch sel.Sel.Name {
				case "hasEntries":
					if hasE == nil {
						hasE = sel
					}
				case "lastKey":
					if lastK == nil {
						lastK = sel
					}
				}
			}
			return true
		})
		if key == nil || hasE == nil || lastK == nil {
			o.Fail("no 'key <= lastKey' rejection (unsorted or duplicate keys would be written)")
			return
		}
		// the facts on every path to the buffering, together with "there is a previous entry",
		// imply key > lastKey (the test may be written directly, negated or through a named local)
		kid := identUse(fn, key)
		atoms := append([]core.Atom{}, g.DominatingAtoms(buf)...)
		var rel []core.Atom
		for _, a := range atoms {
			if core.Mentions(info, a.Expr, key) || strings.Contains(core.ExprStr(a.Expr), "hasEntries") || strings.Contains(core.ExprStr(a.Expr), "lastKey") {
				rel = append(rel, a)
			}
		}
		// the whole conditions of the dominating branches, for tests that are not conjunctions of facts
		for _, e := range g.DominatingEdges(buf) {
			if e.From.Cond != nil && e.From.Cond.Expr != nil && isBoolExpr(info, e.From.Cond.Expr) {
				rel = append(rel, core.Atom{Expr: e.From.Cond.Expr, Neg: e.Label == core.EdgeFalse})
			}
		}
		rel = append(rel, core.Atom{Expr: hasE})
		holds, counter, decided := c.Prog.Implies(core.Formula{Fn: fn, Atoms: rel}, core.Formula{Fn: fn, Atoms: []core.Atom{{Expr: &ast.BinaryExpr{X: kid, Op: token.GTR, Y: lastK}}}})
		switch {
		case !decided:
			o.Unrec("the conditions under which addEntry buffers an entry were not decided: %s", counter)
		case !holds:
			o.Fail("no 'key <= lastKey' rejection (unsorted or duplicate keys would be written): the entry is buffered for %s", counter)
			return
		}
		// the previous key and the flag are recorded on every path that buffers
		recorded := map[string]bool{}
		for _, v := range g.Vs {
			as, ok := v.AST.(*ast.AssignStmt)
			if !ok || len(as.Lhs) != len(as.Rhs) {
				continue
			}
			for i, l := range as.Lhs {
				sel, isSel := ast.Unparen(l).(*ast.SelectorExpr)
				if !isSel || !(g.Dominates(v, buf) || !g.ReachFrom(buf, false, core.AvoidVs(v))[g.Exit]) {
					continue
				}
				switch sel.Sel.Name {
				case "lastKey":
					if core.ObjOf(info, as.Rhs[i]) == key {
						recorded["lastKey"] = true
					}
				case "hasEntries":
					if tv, has := info.Types[as.Rhs[i]]; has && tv.Value != nil && tv.Value.String() == "true" {
						recorded["hasEntries"] = true
					}
				}
			}
		}
		o.Require(recorded["lastKey"] && recorded["hasEntries"], "the previous key is not recorded")
		// a full leaf is completed at the fan-out bound
		full := "none"
		for _, cv := range callVerticesSuffix(g, ".completePendingLeaf") {
			for _, a := range g.DominatingAtoms(cv.V) {
				cmp, isCmp := a.AsCmp()
				if !isCmp || !strings.Contains(strings.ReplaceAll(core.ExprStr(cmp.L), " ", ""), "len(w.pendingLeaf)") {
					continue
				}
				if ro := core.ObjOf(info, cmp.R); ro != nil && ro.Name() == "maxChildren" && cmp.Op == token.GEQ {
					full = "ok"
				} else if full != "ok" {
					full = "other"
				}
			}
		}
		switch full {
		case "none":
			o.Unrec("the test under which a full leaf is completed was not found")
		case "other":
			o.Fail("leaves are not completed at the fan-out bound")
		}
		o.Require(c.Prog.ConstInt(pk, "maxChildren") <= 64, "fan-out bound is %d", c.Prog.ConstInt(pk, "maxChildren"))
	})
	c.Check("C17-R3", pk+".WriteMap/sorted", "WriteMap sorts the keys before it feeds them to the writer (map order never reaches the output)", func(o *core.Ob) {
		fn := c.Prog.Func(pk, "WriteMap")
		o.At(fn.Site(fn.Decl, ""))
		checkMapRanges(o, fn, true)
		// every loop that feeds entries to the tree writer ranges over a slice
		// that was sorted (in place, before the loop) or produced sorted
		g := fn.Graph()
		info := fn.Info()
		isSortCall := func(k string) bool {
			switch k {
			case "slices.Sort", "slices.SortFunc", "slices.SortStableFunc", "sort.Slice", "sort.SliceStable", "sort.Strings", "sort.Ints", "sort.Sort":
				return true
			}
			return false
		}
		isSortedProducer := func(e ast.Expr) bool {
			call, ok := ast.Unparen(e).(*ast.CallExpr)
			if !ok {
				return false
			}
			k := core.CalleeKey(info, call)
			if k == "slices.Sorted" || k == "slices.SortedFunc" || k == "slices.SortedStableFunc" {
				return true
			}
			// a helper of the package that sorts what it returns: every return hands back a
			// local that a sort call was applied to on every path to that return
			callee := core.Callee(info, call)
			if callee == nil || callee.Pkg() == nil || callee.Pkg() != fn.Obj.Pkg() {
				return false
			}
			hf := c.Prog.FuncOf(callee)
			if hf == nil || hf.Decl.Body == nil {
				return false
			}
			hg, hinfo := hf.Graph(), hf.Info()
			rets := hg.Returns()
			if len(rets) == 0 {
				return false
			}
			for _, r := range rets {
				rs := r.AST.(*ast.ReturnStmt)
				if len(rs.Results) != 1 {
					return false
				}
				if isC, okC := ast.Unparen(rs.Results[0]).(*ast.CallExpr); okC {
					if ck := core.CalleeKey(hinfo, isC); ck == "slices.Sorted" || ck == "slices.SortedFunc" || ck == "slices.SortedStableFunc" {
						continue
					}
				}
				obj := core.ObjOf(hinfo, rs.Results[0])
				if obj == nil {
					return false
				}
				sortedHere := false
				for _, v := range hg.Vs {
					if v.AST == nil || !hg.Dominates(v, r) {
						continue
					}
					for _, cs := range core.CallsIn(hinfo, v.AST, false) {
						if isSortCall(cs.Key) && len(cs.Call.Args) >= 1 && core.ObjOf(hinfo, cs.Call.Args[0]) == obj {
							// nothing is appended to it afterwards
							clean := true
							for _, d := range defVertices(hg, obj) {
								if d != v && hg.PathExists(v, d, nil) && hg.PathExists(d, r, nil) {
									clean = false
								}
							}
							if clean {
								sortedHere = true
							}
						}
					}
				}
				if !sortedHere {
					return false
				}
			}
			return true
		}
		loops := 0
		_ = g
		ast.Inspect(fn.Decl.Body, func(n ast.Node) bool {
			rs, ok := n.(*ast.RangeStmt)
			if !ok {
				return true
			}
			if _, isMap := info.TypeOf(rs.X).Underlying().(*types.Map); isMap {
				return true // collecting the keys; checkMapRanges looks at what the body does
			}
			// a loop that hands entries on: its body calls something other than append
			feeds := false
			for _, cs := range core.CallsIn(info, rs.Body, true) {
				if cs.Key != "builtin.append" && cs.Key != "builtin.len" {
					feeds = true
				}
			}
			if !feeds {
				return true
			}
			loops++
			x := rs.X
			o.At(fn.Site(rs, "feeds the writer"))
			if isSortedProducer(x) {
				return true
			}
			obj := core.ObjOf(info, x)
			sorted := false
			if obj != nil {
				for _, d := range core.AssignsTo(info, fn.Decl, obj) {
					if as, ok := d.(*ast.AssignStmt); ok && len(as.Rhs) == 1 && isSortedProducer(as.Rhs[0]) {
						sorted = true
					}
				}
				for _, cs := range core.CallsIn(info, fn.Decl.Body, true) {
					if isSortCall(cs.Key) && len(cs.Call.Args) >= 1 && core.ObjOf(info, cs.Call.Args[0]) == obj && cs.Call.Pos() < rs.Pos() {
						sorted = true
					}
				}
			}
			if !sorted {
				o.FailAt(fn.Site(rs, ""), "keys are not sorted before iteration")
			}
			return true
		})
		o.Shape(loops >= 1, "the loop that feeds the entries to the writer was not found")
	})
	c.Check("C17-R4", pk+".codecs", "a key codec decodes every key it can encode: decode has no key-dependent rejection, encode/decode use the matching PDF type", func(o *core.Ob) {
		for _, t := range []string{"NameCodec", "NumCodec"} {
			dec := c.Prog.Func(pk, t+".decode")
			enc := c.Prog.Func(pk, t+".encode")
			o.At(dec.Site(dec.Decl, t))
			ast.Inspect(dec.Decl.Body, func(n ast.Node) bool {
				switch x := n.(type) {
				case *ast.IfStmt:
					cond := strings.ReplaceAll(core.ExprStr(x.Cond), " ", "")
					if cond != "err!=nil" {
						o.FailAt(dec.Site(x, ""), "%s.decode rejects keys depending on %s; the writer emits every key of the ordered type (for names: including the empty name)", t, cond)
					}
				case *ast.SwitchStmt:
					o.FailAt(dec.Site(x, ""), "%s.decode branches on the key", t)
				}
				return true
			})
			es, ds := c.Prog.Src(enc.Decl.Body), c.Prog.Src(dec.Decl.Body)
			if t == "NameCodec" {
				o.Shape(es == "{returnpdf.String(key)}" && strings.Contains(ds, "c.String(obj)") && strings.Contains(ds, "pdf.Name(s)"), "name keys must be written as strings and read back as strings")
			} else {
				o.Shape(es == "{returnkey}" && strings.Contains(ds, "c.Integer(obj)"), "number keys must be written and read as integers")
			}
		}
	})
	c.Check("C17-R4", pk+".readers", "both readers look at the keys the writer emits and guard kid references by a visited-set and a depth bound", func(o *core.Ob) {
		pkg := c.Prog.Pkg(pk)
		readKeys := map[string]map[string]bool{}
		for _, fn := range c.Prog.Funcs(pkg) {
			file := c.Prog.Fset.Position(fn.Decl.Pos()).Filename
			var which string
			switch {
			case strings.HasSuffix(file, "streaming.go"):
				which = "streaming"
			case strings.HasSuffix(file, "memory.go"):
				which = "memory"
			default:
				continue
			}
			if readKeys[which] == nil {
				readKeys[which] = map[string]bool{}
			}
			for k := range core.DictKeysRead(fn.Info(), fn.Decl, "pdf", "Dict") {
				readKeys[which][k] = true
			}
			src := c.Prog.Src(fn.Decl.Body)
			if strings.Contains(src, "kc.leafKey()") {
				readKeys[which]["leafKey"] = true
			}
		}
		o.Count(2)
		for which, ks := range readKeys {
			o.Fact("%s reader reads %s", which, joinSet(ks))
			o.Require(ks["Kids"] && ks["leafKey"], "the %s reader does not read Kids and the leaf array", which)
		}
		o.Require(readKeys["streaming"]["Limits"], "the streaming reader does not use /Limits to descend")
		// guards: every recursive descent of a reader (a function of the two
		// reader files that can reach itself through calls inside the package)
		// tests kid references against a visited-set with an exit, extends the
		// set, and bounds the depth -- in the recursive functions themselves or
		// in unexported helpers they call
		var readers []*core.Func
		for _, fn := range c.Prog.Funcs(pkg) {
			file := c.Prog.Fset.Position(fn.Decl.Pos()).Filename
			if fn.Decl.Body != nil && (strings.HasSuffix(file, "streaming.go") || strings.HasSuffix(file, "memory.go")) {
				readers = append(readers, fn)
			}
		}
		callees := func(fn *core.Func) []*core.Func {
			var out []*core.Func
			for _, cs := range core.CallsIn(fn.Info(), fn.Decl.Body, true) {
				if cs.Fn == nil || cs.Fn.Pkg() == nil || cs.Fn.Pkg() != fn.Obj.Pkg() {
					continue
				}
				if h := c.Prog.FuncOf(cs.Fn); h != nil && h.Decl.Body != nil {
					out = append(out, h)
				}
			}
			return out
		}
		reach := func(from *core.Func) map[*core.Func]bool {
			seen := map[*core.Func]bool{}
			var walk func(f *core.Func)
			walk = func(f *core.Func) {
				for _, h := range callees(f) {
					if !seen[h] {
						seen[h] = true
						walk(h)
					}
				}
			}
			walk(from)
			return seen
		}
		isRefMap := func(info *types.Info, e ast.Expr) bool {
			t := info.TypeOf(e)
			if t == nil {
				return false
			}
			mt, ok := t.Underlying().(*types.Map)
			return ok && core.IsNamed(mt.Key(), "pdf", "Reference")
		}
		assigned := map[*core.Func]bool{}
		nrec := 0
		for _, fn := range readers {
			r := reach(fn)
			if !r[fn] || assigned[fn] {
				continue
			}
			// the cycle fn lies on, and the helpers its members call directly
			region := map[*core.Func]bool{}
			for h := range r {
				if reach(h)[fn] {
					region[h] = true
					assigned[h] = true
				}
			}
			members := len(region)
			for h := range region {
				for _, x := range callees(h) {
					if !x.Obj.Exported() {
						region[x] = true
					}
				}
			}
			nrec++
			o.At(fn.Site(fn.Decl, fmt.Sprintf("recursive reader (%d function(s) on the cycle)", members)))
			tested, stored, bounded := false, false, false
			for h := range region {
				info := h.Info()
				ast.Inspect(h.Decl.Body, func(m ast.Node) bool {
					switch x := m.(type) {
					case *ast.IfStmt:
						hasTest := false
						ast.Inspect(x.Cond, func(k ast.Node) bool {
							if ix, ok := k.(*ast.IndexExpr); ok && isRefMap(info, ix.X) {
								hasTest = true
							}
							return true
						})
						// if seen[ref] { exit }   or   if !seen[ref] { seen[ref] = true; descend } else-less
						if hasTest && (exits(x.Body) || (x.Else != nil && func() bool { b, isB := x.Else.(*ast.BlockStmt); return isB && exits(b) }())) {
							tested = true
						}
						if mentionsMaxDepth(info, x.Cond) && exits(x.Body) {
							bounded = true
						}
					case *ast.AssignStmt:
						for _, l := range x.Lhs {
							if ix, ok := ast.Unparen(l).(*ast.IndexExpr); ok && isRefMap(info, ix.X) {
								stored = true
							}
						}
					}
					return true
				})
			}
			// a helper that extends the set and reports (as a boolean) whether the
			// reference was new is a test, however it finds out (seen[ref], or the
			// set's length before and after)
			reporting := map[*core.Func]bool{}
			for h := range region {
				if reach(h)[fn] {
					continue
				}
				res := h.Decl.Type.Results
				if res == nil || len(res.List) != 1 {
					continue
				}
				if b, ok := h.Info().TypeOf(res.List[0].Type).Underlying().(*types.Basic); !ok || b.Kind() != types.Bool {
					continue
				}
				st := false
				ast.Inspect(h.Decl.Body, func(m ast.Node) bool {
					if as, ok := m.(*ast.AssignStmt); ok {
						for _, l := range as.Lhs {
							if ix, ok := ast.Unparen(l).(*ast.IndexExpr); ok && isRefMap(h.Info(), ix.X) {
								st = true
							}
						}
					}
					return true
				})
				if st {
					reporting[h] = true
					tested = true
				}
			}
			// a test made in a helper counts only if the helper's result decides an exit in a member of the cycle
			if tested {
				direct := false
				for h := range region {
					if !reach(h)[fn] {
						continue
					}
					info := h.Info()
					ast.Inspect(h.Decl.Body, func(m ast.Node) bool {
						is, ok := m.(*ast.IfStmt)
						if !ok {
							return true
						}
						ast.Inspect(is.Cond, func(k ast.Node) bool {
							switch y := k.(type) {
							case *ast.IndexExpr:
								if isRefMap(info, y.X) {
									direct = true
								}
							case *ast.CallExpr:
								if f := core.Callee(info, y); f != nil {
									if hh := c.Prog.FuncOf(f); hh != nil && region[hh] && !reach(hh)[fn] {
										direct = true
									}
								}
							}
							return true
						})
						return true
					})
				}
				tested = direct
			}
			o.Shape(tested && stored, "the recursive reader %s has no visited-set on kid references (a set keyed by Reference that is tested with an exit and extended)", fn.Key)
			o.Shape(bounded, "the recursive reader %s has no depth bound (a test against maxDepth with an exit)", fn.Key)
		}
		o.Shape(nrec >= 1, "no recursive reader was found in streaming.go and memory.go: how reference cycles in a tree are survived is not decided by this rule")
	})
	c.Check("C17-R5", pk+".finish/empty", "an empty map yields no tree: finish returns the zero reference without writing anything", func(o *core.Ob) {
		fn := c.Prog.Func(pk, "(*treeWriter).finish")
		g := fn.Graph()
		info := fn.Info()
		ok := false
		for _, r := range g.Returns() {
			rs := r.AST.(*ast.ReturnStmt)
			if len(rs.Results) == 2 && core.IsNil(info, rs.Results[1]) {
				if k, isK := core.IntConst(info, rs.Results[0]); isK && k == 0 {
					o.At(fn.Site(rs, "empty"))
					ok = g.GuardedBy(r, func(a core.Atom) bool {
						// (also as a case of a switch over the length)
						if cmp, isCmp := a.AsCmp(); isCmp && cmp.Op == token.EQL {
							if k, isK := core.IntConst(info, cmp.R); isK && k == 0 {
								l := strings.ReplaceAll(core.ExprStr(cmp.L), " ", "")
								if l == "len(w.tail)" || resolveText(g, r, cmp.L, 3) == "len(w.tail)" {
									return true
								}
							}
						}
						if a.Neg || a.Tag != nil {
							return false
						}
						if strings.ReplaceAll(core.ExprStr(a.Expr), " ", "") == "len(w.tail)==0" {
							return true
						}
						// n := len(w.tail); if n == 0
						return resolveText(g, r, a.Expr, 3) == "len(w.tail)==0"
					})
					// nothing written on the way
					for _, cv := range callVerticesSuffix(g, ".Put", ".Alloc") {
						if g.PathExists(cv.V, r, nil) {
							ok = false
						}
					}
				}
			}
		}
		o.Require(ok, "no write-free zero-reference return for the empty tree")
	})
}

// mentionsMaxDepth reports whether a condition compares against the depth
// bound (the maxDepth constant, variable or function).
func mentionsMaxDepth(info *types.Info, e ast.Expr) bool {
	found := false
	ast.Inspect(e, func(n ast.Node) bool {
		if id, ok := n.(*ast.Ident); ok && strings.EqualFold(id.Name, "maxDepth") {
			found = true
		}
		return !found
	})
	return found
}

// conjunctSet renders the conjuncts of a condition sorted, so that the
// order in which they are written does not matter.
func conjunctSet(e ast.Expr) string {
	var parts []string
	var walk func(e ast.Expr)
	walk = func(e ast.Expr) {
		e = ast.Unparen(e)
		if be, ok := e.(*ast.BinaryExpr); ok && be.Op.String() == "&&" {
			walk(be.X)
			walk(be.Y)
			return
		}
		parts = append(parts, strings.ReplaceAll(core.ExprStr(e), " ", ""))
	}
	walk(e)
	sort.Strings(parts)
	return strings.Join(parts, "&&")
}

// rulePutOwnsObject (C17-R7): pdf.Writer.Put may defer writing an object
// (while a stream is open on the writer, objects are queued and written when
// the stream is closed).  The node dictionaries a tree writer hands to Put
// must therefore not share slices or maps with storage the tree writer keeps
// and reuses for the next node: a later node would overwrite the queued one.
func rulePutOwnsObject(c *core.Ctx) {
	const pk = "pdf/internal/pdftree"
	c.Check("C17-R7", pk+"/put-owns-object", "no object passed to Writer.Put shares backing storage with fields of the tree writer", func(o *core.Ob) {
		pkg := c.Prog.Pkg(pk)
		n := 0
		for _, fn := range c.Prog.Funcs(pkg) {
			info := fn.Info()
			for _, call := range core.CallsTo(info, fn.Decl.Body, true, "pdf.(*Writer).Put") {
				n++
				o.Count(1)
				o.At(fn.Site(call, "node written"))
				if p, ok := backingFromReceiver(fn, call.Args[1]); ok {
					o.FailAt(fn.Site(call, ""), "%s: the object given to Put shares storage with the tree writer's own state (%s); Put may write it only later, after the storage has been reused", c.Prog.Pos(call.Pos()), p)
				}
			}
		}
		o.Shape(n >= 4, "expected at least four Put calls in the tree writer, found %d", n)
	})
}

// ruleIteratorStateFresh (C17-R8): an iter.Seq value may be ranged over more
// than once; each run must enumerate all entries.  State that the
// enumeration mutates (the visited-set that protects against reference
// cycles) has to be created inside the iterator function; if it is created
// once in the method that returns the iterator and captured, the second run
// starts with the first run's state and silently skips everything already
// visited.
func ruleIteratorStateFresh(c *core.Ctx) {
	// does fn (a repository function) mutate its parameter number idx (map store / delete), directly or through calls?
	var mutatesParam func(fn *core.Func, idx int, depth int) bool
	mutatesParam = func(fn *core.Func, idx int, depth int) bool {
		if fn == nil || depth > 3 {
			return false
		}
		var p types.Object
		i := 0
		for _, fl := range fn.Decl.Type.Params.List {
			for _, nm := range fl.Names {
				if i == idx {
					p = fn.Info().Defs[nm]
				}
				i++
			}
		}
		if p == nil {
			return false
		}
		return mutatesObj(c, fn, fn.Decl.Body, p, depth, mutatesParam)
	}
	n := 0
	for _, pkg := range c.Prog.RepoPkgs() {
		if !strings.HasSuffix(pkg.PkgPath, "/internal/pdftree") && !strings.HasSuffix(pkg.PkgPath, "/nametree") && !strings.HasSuffix(pkg.PkgPath, "/numtree") {
			continue
		}
		for _, fn := range c.Prog.Funcs(pkg) {
			fn := fn
			res := fn.Obj.Type().(*types.Signature).Results()
			if res.Len() != 1 || !strings.HasPrefix(core.TypeString(res.At(0).Type()), "iter.Seq") {
				continue
			}
			n++
			c.Check("C17-R8", fn.Key+"/fresh-state", "mutable enumeration state is created inside the iterator function, so that every run of the iterator starts afresh", func(o *core.Ob) {
				info := fn.Info()
				o.At(fn.Site(fn.Decl, "returns an iterator"))
				ast.Inspect(fn.Decl.Body, func(m ast.Node) bool {
					rs, ok := m.(*ast.ReturnStmt)
					if !ok || len(rs.Results) != 1 {
						return true
					}
					lit, ok := ast.Unparen(rs.Results[0]).(*ast.FuncLit)
					if !ok {
						return true
					}
					o.Count(1)
					// captured variables of map or slice type that the closure mutates
					captured := map[types.Object]bool{}
					ast.Inspect(lit.Body, func(x ast.Node) bool {
						if id, ok := x.(*ast.Ident); ok {
							if v, ok := info.Uses[id].(*types.Var); ok && !v.IsField() && v.Pos() < lit.Pos() && v.Parent() != v.Pkg().Scope() && v.Pos() > fn.Decl.Body.Pos() {
								switch v.Type().Underlying().(type) {
								case *types.Map, *types.Slice, *types.Pointer:
									captured[v] = true
								}
							}
						}
						return true
					})
					for v := range captured {
						o.Count(1)
						if mutatesObj(c, fn, lit.Body, v, 0, mutatesParam) {
							o.FailAt(fn.Site(lit, ""), "%s: the iterator mutates %s, which is created once outside the iterator function: a second run of the iterator sees the state left by the first", c.Prog.Pos(v.Pos()), v.Name())
						}
					}
					return true
				})
			})
		}
	}
	c.Floor("C17-R8", 2)
	_ = n
}

// mutatesObj reports whether the code under root stores into the map/slice
// obj, deletes from it, or passes it to a repository function that does.
func mutatesObj(c *core.Ctx, fn *core.Func, root ast.Node, obj types.Object, depth int, rec func(*core.Func, int, int) bool) bool {
	info := fn.Info()
	found := false
	ast.Inspect(root, func(m ast.Node) bool {
		if found {
			return false
		}
		switch x := m.(type) {
		case *ast.AssignStmt:
			for _, l := range x.Lhs {
				if ix, ok := ast.Unparen(l).(*ast.IndexExpr); ok && core.ObjOf(info, ix.X) == obj {
					found = true
				}
			}
		case *ast.IncDecStmt:
			if ix, ok := ast.Unparen(x.X).(*ast.IndexExpr); ok && core.ObjOf(info, ix.X) == obj {
				found = true
			}
		case *ast.CallExpr:
			if id, ok := x.Fun.(*ast.Ident); ok && (id.Name == "delete" || id.Name == "clear") && len(x.Args) >= 1 && core.ObjOf(info, x.Args[0]) == obj {
				found = true
			}
			if callee := core.Callee(info, x); callee != nil {
				if cf := c.Prog.FuncOf(callee); cf != nil {
					for i, a := range x.Args {
						if core.ObjOf(info, a) == obj && rec(cf, i, depth+1) {
							found = true
						}
					}
				}
			}
		}
		return true
	})
	return found
}

// ruleReadersPure (C17-R9): looking a key up and enumerating a tree are
// functions of the tree alone.  The reading-side methods of InMemory and
// FromFile (All, Lookup, Size and the helpers they call) store nothing
// through their receiver: a cache filled on first use goes stale when the
// map behind an InMemory tree is edited and the tree is written again.
func ruleReadersPure(c *core.Ctx) {
	const pk = "pdf/internal/pdftree"
	ruleMethodsPure(c, "C17-R9", pk, 4, func(fn *core.Func, recv types.Type) bool {
		return core.IsNamed(recv, pk, "InMemory") || core.IsNamed(recv, pk, "FromFile")
	})
}

// ruleMethodsPure: the selected methods store nothing through their receiver
// (SSA may-write analysis, including the closures they return).
func ruleMethodsPure(c *core.Ctx, rule, pk string, floor int, match func(fn *core.Func, recv types.Type) bool) {
	pkg := c.Prog.Pkg(pk)
	var ma *core.MutAnalysis
	n := 0
	for _, fn := range c.Prog.Funcs(pkg) {
		fn := fn
		if fn.Decl.Recv == nil || len(fn.Decl.Recv.List) != 1 || len(fn.Decl.Recv.List[0].Names) != 1 {
			continue
		}
		rt := fn.Info().TypeOf(fn.Decl.Recv.List[0].Type)
		if !match(fn, rt) {
			continue
		}
		n++
		c.Check(rule, fn.Key+"/pure", "the reading-side method stores nothing through its receiver (SSA may-write analysis, including the iterator closures it returns)", func(o *core.Ob) {
			if ma == nil {
				ma = core.NewMutAnalysis(c.Prog)
				ma.ImplPkgs[core.ModulePath] = true
				ma.AppendIsWrite = true
			}
			sf := ma.S.FuncValue(fn.Obj)
			if sf == nil || len(sf.Params) == 0 {
				core.Undecided("no SSA function for %s", fn.Key)
			}
			o.At(fn.Site(fn.Decl, "receiver "+sf.Params[0].Name()))
			report := func(ws []core.MutWitness) {
				seen := map[string]bool{}
				for _, w := range ws {
					pos := c.Prog.Pos(w.Pos)
					if seen[pos+w.What] {
						continue
					}
					seen[pos+w.What] = true
					o.Sites = append(o.Sites, core.Site{Pos: pos, Func: w.Fn, Note: w.What})
					o.Fail("%s: %s in %s (call chain: %s)", pos, w.What, w.Fn, strings.Join(w.Chain, " -> "))
				}
			}
			o.Count(1)
			report(ma.Mutations(sf, []ssa.Value{sf.Params[0]}, nil))
			recvName := sf.Params[0].Name()
			var anons func(f *ssa.Function)
			anons = func(f *ssa.Function) {
				for _, af := range f.AnonFuncs {
					for _, fv := range af.FreeVars {
						if fv.Name() == recvName {
							o.Count(1)
							report(ma.Mutations(af, []ssa.Value{fv}, nil))
						}
					}
					anons(af)
				}
			}
			anons(sf)
		})
	}
	c.Floor(rule, floor)
	_ = n
}

// nodeRole decides whether the dictionary literal cl, written with
// Put(ref, node), is a tree root (ref is returned by the function) or an
// inner node (ref is recorded as the ref field of a node descriptor).
func nodeRole(fn *core.Func, cl *ast.CompositeLit) (root, known bool) {
	info := fn.Info()
	// the variable holding the literal
	var nodeObj types.Object
	ast.Inspect(fn.Decl.Body, func(n ast.Node) bool {
		if as, ok := n.(*ast.AssignStmt); ok && len(as.Lhs) == len(as.Rhs) {
			for i, r := range as.Rhs {
				if ast.Unparen(r) == ast.Expr(cl) {
					nodeObj = core.ObjOf(info, as.Lhs[i])
				}
			}
		}
		return true
	})
	var refObj types.Object
	ast.Inspect(fn.Decl.Body, func(n ast.Node) bool {
		call, ok := n.(*ast.CallExpr)
		if !ok || len(call.Args) != 2 || !strings.HasSuffix(core.CalleeKey(info, call), ".Put") {
			return true
		}
		a1 := ast.Unparen(call.Args[1])
		if a1 == ast.Expr(cl) || (nodeObj != nil && core.ObjOf(info, a1) == nodeObj) {
			refObj = core.ObjOf(info, call.Args[0])
		}
		return true
	})
	if refObj == nil {
		return false, false
	}
	returned, recorded := false, false
	ast.Inspect(fn.Decl.Body, func(n ast.Node) bool {
		switch x := n.(type) {
		case *ast.ReturnStmt:
			if len(x.Results) >= 1 && core.ObjOf(info, x.Results[0]) == refObj {
				returned = true
			}
		case *ast.KeyValueExpr:
			if id, ok := x.Key.(*ast.Ident); ok && id.Name == "ref" && core.ObjOf(info, x.Value) == refObj {
				recorded = true
			}
		}
		return true
	})
	if returned == recorded {
		return false, false
	}
	return returned, true
}

func isBoolExpr(info *types.Info, e ast.Expr) bool {
	t := info.TypeOf(e)
	if t == nil {
		return false
	}
	b, ok := t.Underlying().(*types.Basic)
	return ok && b.Info()&types.IsBoolean != 0
}
