package props

import (
	"fmt"
	"go/types"
	"strings"

	"golang.org/x/tools/go/ssa"

	"pdfverif/internal/core"
)

// ruleNoArgMutation (C02-R1): writing never modifies the caller's objects.
func ruleNoArgMutation(c *core.Ctx, rule string) {
	type entry struct {
		fn     string
		params []string
	}
	entries := []entry{
		{"(*Writer).Put", []string{"obj"}},
		{"(*Writer).WriteCompressed", []string{"objects"}},
		{"(*Writer).OpenStream", []string{"dict"}},
		{"Format", []string{"objects"}},
	}
	// every Write method of package pdf: an io.Writer must not modify the slice it is given
	// (the caller may write the same bytes elsewhere, or keep using them)
	for _, fn := range c.Prog.Funcs(c.Prog.Pkg("pdf")) {
		if fn.Decl.Recv == nil || fn.Decl.Name.Name != "Write" || fn.Decl.Body == nil || c.Prog.IsTestFile(fn.Decl.Pos()) {
			continue
		}
		ps := fn.Decl.Type.Params
		if ps == nil || len(ps.List) != 1 || len(ps.List[0].Names) != 1 {
			continue
		}
		if sl, ok := fn.Info().TypeOf(ps.List[0].Type).Underlying().(*types.Slice); !ok || !types.Identical(sl.Elem(), types.Typ[types.Byte]) {
			continue
		}
		entries = append(entries, entry{strings.TrimPrefix(fn.Key, "pdf."), []string{ps.List[0].Names[0].Name}})
	}
	c.Floor(rule, 4)
	var ma *core.MutAnalysis
	for _, e := range entries {
		e := e
		c.Check(rule, "pdf."+e.fn, "no instruction reachable from this entry point (through static calls and through methods of package pdf's types) writes through memory reachable from the caller's object arguments", func(o *core.Ob) {
			if ma == nil {
				ma = core.NewMutAnalysis(c.Prog)
				ma.ImplPkgs[core.ModulePath] = true
				ma.ExemptTypes["pdf.Placeholder"] = "a Placeholder exists to be filled in by the writer (records positions, allocates its reference)"
				ma.ExemptTypes["pdf.Writer"] = "the writer's own state"
				ma.ExemptTypes["pdf.posWriter"] = "the writer's own state"
			}
			fn := c.Prog.Func("pdf", e.fn)
			sf := ma.S.FuncValue(fn.Obj)
			if sf == nil {
				core.Undecided("no SSA function for %s", fn.Key)
			}
			var seeds []ssa.Value
			for _, p := range sf.Params {
				for _, want := range e.params {
					if core.VarName(p.Object()) == want {
						seeds = append(seeds, p)
					}
				}
			}
			if len(seeds) != len(e.params) {
				core.Undecided("%s: parameters %v not found", fn.Key, e.params)
			}
			o.At(fn.Site(fn.Decl, "entry point, seeds "+strings.Join(e.params, ",")))
			before := len(ma.Visited)
			ws := ma.Mutations(sf, seeds, nil)
			o.Count(len(ma.Visited) - before + 1)
			o.Fact("%d functions analysed with a caller-derived argument so far", len(ma.Visited))
			seen := map[string]bool{}
			for _, w := range ws {
				pos := c.Prog.Pos(w.Pos)
				k := pos + w.What
				if seen[k] {
					continue
				}
				seen[k] = true
				chain := w.Chain
				if len(chain) > 6 {
					chain = append(chain[:3], append([]string{"..."}, chain[len(chain)-3:]...)...)
				}
				o.Sites = append(o.Sites, core.Site{Pos: pos, Func: w.Fn, Note: w.What})
				o.Fail("%s: %s in %s (call chain: %s)", pos, w.What, w.Fn, strings.Join(chain, " -> "))
			}
		})
	}
	_ = fmt.Sprint
}

// ruleWriteMethodsPure: every io.Writer implementation in the loaded module
// packages honours the io.Writer contract "Write must not modify the slice
// data, even temporarily".  Stream bodies handed to OpenStream(...).Write(p)
// pass through these methods (encryption, filters, buffering); a Write that
// changes p corrupts the caller's data for its next use.
func ruleWriteMethodsPure(c *core.Ctx, rule string, floor int) {
	var fns []*core.Func
	for _, pkg := range c.Prog.RepoPkgs() {
		for _, fn := range c.Prog.Funcs(pkg) {
			if fn.Obj.Name() != "Write" {
				continue
			}
			sig := fn.Obj.Type().(*types.Signature)
			if sig.Recv() == nil || sig.Params().Len() != 1 || sig.Results().Len() != 2 {
				continue
			}
			sl, ok := sig.Params().At(0).Type().Underlying().(*types.Slice)
			if !ok {
				continue
			}
			if b, ok := sl.Elem().Underlying().(*types.Basic); !ok || b.Kind() != types.Uint8 {
				continue
			}
			fns = append(fns, fn)
		}
	}
	c.Floor(rule, floor)
	var ma *core.MutAnalysis
	for _, fn := range fns {
		fn := fn
		c.Check(rule, fn.Key, "io.Writer contract: no instruction reachable from this Write method stores through the caller's slice p", func(o *core.Ob) {
			if ma == nil {
				ma = core.NewMutAnalysis(c.Prog)
				ma.ImplPkgs[core.ModulePath] = true
			}
			sf := ma.S.FuncValue(fn.Obj)
			if sf == nil {
				core.Undecided("no SSA function for %s", fn.Key)
			}
			if len(sf.Params) != 2 {
				core.Undecided("%s: unexpected SSA parameter list", fn.Key)
			}
			o.At(fn.Site(fn.Decl, "Write method, seed "+sf.Params[1].Name()))
			before := len(ma.Visited)
			ws := ma.Mutations(sf, []ssa.Value{sf.Params[1]}, nil)
			o.Count(len(ma.Visited) - before + 1)
			seen := map[string]bool{}
			for _, w := range ws {
				pos := c.Prog.Pos(w.Pos)
				k := pos + w.What
				if seen[k] {
					continue
				}
				seen[k] = true
				o.Sites = append(o.Sites, core.Site{Pos: pos, Func: w.Fn, Note: w.What})
				o.Fail("%s: %s in %s (call chain: %s)", pos, w.What, w.Fn, strings.Join(w.Chain, " -> "))
			}
		})
	}
}
