package props

import (
	"fmt"
	"go/ast"
	"go/token"
	"go/types"
	"os"
	"regexp"
	"sort"
	"strings"

	"pdfverif/internal/core"
)

func init() {
	register(&Property{
		ID:       "C13",
		Patterns: []string{"./font/cmap"},
		Run:      runC13,
		Explanation: "Narrow static rules on CMap/ToUnicode construction and storage: (R6) the builders store every entry of the input map — no value-dependent skip other than 'the parent already maps this code to the same CID'; (R7) a run of consecutive codes is written in the compact incrementing form only if EVERY adjacent pair of values was compared in full (string successor for ToUnicode, value+1 for CIDs), over the whole run; " +
			"(R2) the stream-dictionary keys written by Embed are the keys Extract reads; (R4) enumeration is bounded by MaxCMapMappings. Decides these structural conditions for all maps; does NOT decide lookup values, the mixed-radix range arithmetic, or the template/PostScript reader agreement (dropped: the template is executed by text/template and read back by an external PostScript interpreter package, which this analysis does not model).",
	})
	register(&Property{
		ID:       "C14",
		Patterns: []string{"./font/encoding/simpleenc", "./font/cmap", "./font/encoding", "./graphics/extract", "./font/dict", "./graphics/content/builder", "./font/encoding/cidenc"},
		Run:      runC14,
		Explanation: "Narrow static rules on glyph-code allocation and ToUnicode compression: (R3) in simpleenc.Encode a code is chosen only among codes that are not in use — every assignment of the chosen code inside the search loop is dominated by the miss edge of the in-use lookup of that code — the (glyph, text) pair is rejected if it already has a code, the table-full exit precedes the search, and the chosen code is what both tables record; so distinct (glyph, text) pairs can never share a code; " +
			"(R7) ToUnicode range compression compares every adjacent pair in full (shared with C13). Decides these structural conditions for all strings and orders of use; everything value-level (widths, ToUnicode contents, the 18 font kinds end to end, sibling Codes implementations) is NOT decided.",
	})
}

func runC13(c *core.Ctx) {
	c.Guard(func() { ruleBuildersStoreAll(c, "C13-R6") })
	c.Guard(func() { ruleRunCompression(c, "C13-R7") })
	c.Guard(func() { ruleCMapStreamKeys(c) })
	c.Guard(func() { ruleCMapBounded(c) })
	c.Guard(func() { ruleRangeIndexStep(c) })
	c.Guard(func() { ruleIncrementBase(c) })
	c.Guard(func() { ruleRectangularRanges(c) })
	c.Guard(func() { ruleRangePositionIndex(c) })
	c.Guard(func() { ruleAliasHygiene(c, [3]string{"C13-R11", "C13-R12", "C13-R13"}, cmapPkg) })
	c.Guard(func() {
		ruleMethodsPure(c, "C13-R14", cmapPkg, 5, func(fn *core.Func, recv types.Type) bool {
			if !(core.IsNamed(recv, cmapPkg, "File") || core.IsNamed(recv, cmapPkg, "ToUnicodeFile")) {
				return false
			}
			n := fn.Obj.Name()
			return strings.HasPrefix(n, "Lookup") || n == "All" || n == "CodeForText" || n == "GetMapping" || n == "Equal" || n == "IsPredefined"
		})
	})
}

func runC14(c *core.Ctx) {
	c.Guard(func() { ruleSimpleEncode(c) })
	c.Guard(func() { ruleCIDEncodeFresh(c) })
	c.Guard(func() { ruleRunCompression(c, "C14-R7") })
	c.Guard(func() { ruleSimpleWidthsWindow(c) })
	c.Guard(func() { ruleDifferencesArray(c) })
	c.Guard(func() { ruleSimpleCodesSiblings(c) })
	c.Guard(func() { ruleFontSelectionIdentity(c) })
	c.Guard(func() { ruleWidthsTrimming(c) })
}

const cmapPkg = "pdf/font/cmap"

func ruleBuildersStoreAll(c *core.Ctx, rule string) {
	type b struct {
		fn      string
		allowed []string
	}
	for _, bb := range []b{{"(*File).SetMapping", nil}, {"NewToUnicodeFile", nil}} {
		bb := bb
		c.Check(rule, cmapPkg+"."+bb.fn+"/all-entries", "every entry of the input map is entered into the grouping table: no condition on the mapped value can skip an entry (only 'the parent CMap already yields this CID' may)", func(o *core.Ob) {
			fn := c.Prog.Func(cmapPkg, bb.fn)
			g := fn.Graph()
			info := fn.Info()
			ranges := localVar(fn, "ranges", 0)
			st := mapStores(g, ranges)
			if len(st) != 1 {
				o.Count(1)
				o.Unrec("expected one store into the grouping table, found %d", len(st))
				return
			}
			o.At(fn.Site(st[0].Stmt, "entry grouped"))
			// skips inside the loop: every continue must be the parent-equality skip
			var head *core.V
			for _, h := range loopHeads(g) {
				if h.Cond.Range != nil && core.ExprStr(h.Cond.Range.X) == "data" {
					head = h
				}
			}
			if head == nil {
				core.Undecided("loop over the input map not found")
			}
			// the only legitimate skip: the parent CMap already maps the code to the same value
			// (the loop's value variable), whatever the locals are called; the test may be
			// joined with "there is a parent" in one condition
			valObj := core.ObjOf(info, head.Cond.Range.Value)
			var legitSkip func(cond ast.Expr, at *core.V) bool
			legitSkip = func(cond ast.Expr, at *core.V) bool {
				cond = ast.Unparen(cond)
				be, isBin := cond.(*ast.BinaryExpr)
				if !isBin {
					return false
				}
				if be.Op == token.LAND {
					// parent != nil && <skip>
					for _, pr := range [][2]ast.Expr{{be.X, be.Y}, {be.Y, be.X}} {
						if nb, isN := ast.Unparen(pr[0]).(*ast.BinaryExpr); isN && nb.Op == token.NEQ && core.IsNil(info, nb.Y) && strings.HasSuffix(core.ExprStr(nb.X), ".Parent") {
							return legitSkip(pr[1], at)
						}
					}
					return false
				}
				if be.Op != token.EQL || valObj == nil {
					return false
				}
				for _, pr := range [][2]ast.Expr{{be.X, be.Y}, {be.Y, be.X}} {
					if core.ObjOf(info, pr[1]) != valObj {
						continue
					}
					if call, isCall := ast.Unparen(pr[0]).(*ast.CallExpr); isCall && strings.HasSuffix(core.CalleeKey(info, call), ".LookupCID") {
						return true
					}
					if at != nil {
						all := true
						cases := valueCases(g, at, pr[0], 2)
						for _, vc := range cases {
							call, isCall := ast.Unparen(vc.Expr).(*ast.CallExpr)
							if !isCall || !strings.HasSuffix(core.CalleeKey(info, call), ".LookupCID") {
								all = false
							}
						}
						if all && len(cases) > 0 {
							return true
						}
					}
				}
				return false
			}
			var legitNeg []string
			for _, bv := range g.BranchVertices() {
				if bv.Cond.Expr != nil && legitSkip(bv.Cond.Expr, bv) {
					legitNeg = append(legitNeg, "!("+core.ExprStr(bv.Cond.Expr)+")")
				}
			}
			conds := dominatingConds(g, st[0].V)
			o.Fact("dominating conditions: %v", conds)
			for _, cnd := range conds {
				if cnd == "err == nil" {
					continue // the codec could be built
				}
				isLegit := false
				for _, ln := range legitNeg {
					if strings.ReplaceAll(ln, " ", "") == strings.ReplaceAll(cnd, " ", "") {
						isLegit = true
					}
				}
				if isLegit {
					continue // the store lies behind the legitimate skip
				}
				o.Fail("an entry is grouped only when %q holds: entries for which it fails are silently dropped", cnd)
			}
			ast.Inspect(head.Cond.Range.Body, func(n ast.Node) bool {
				is, ok := n.(*ast.IfStmt)
				if !ok {
					return true
				}
				for _, s := range is.Body.List {
					if br, ok := s.(*ast.BranchStmt); ok && br.Tok == token.CONTINUE {
						cond := strings.ReplaceAll(core.ExprStr(is.Cond), " ", "")
						o.At(fn.Site(is, "skip when "+cond))
						// the only legitimate skip: the parent CMap already maps the code to
						// the same value (the loop's value variable), whatever the locals are called
						okSkip := legitSkip(is.Cond, g.VertexOf(is))
						if be, isBin := ast.Unparen(is.Cond).(*ast.BinaryExpr); !okSkip && isBin && be.Op == token.EQL {
							valObj := core.ObjOf(info, head.Cond.Range.Value)
							for _, pr := range [][2]ast.Expr{{be.X, be.Y}, {be.Y, be.X}} {
								if valObj == nil || core.ObjOf(info, pr[1]) != valObj {
									continue
								}
								if iv := g.VertexOf(is); iv != nil {
									all := true
									for _, vc := range valueCases(g, iv, pr[0], 2) {
										call, isCall := ast.Unparen(vc.Expr).(*ast.CallExpr)
										if !isCall || !strings.HasSuffix(core.CalleeKey(info, call), ".LookupCID") {
											all = false
										}
									}
									okSkip = all
								} else if strings.ReplaceAll(core.ExprStr(pr[0]), " ", "") == "parentCID" {
									okSkip = true
								}
							}
						}
						if !okSkip && cond != "parentCID==cid" {
							o.FailAt(fn.Site(is, ""), "entries are skipped when %s", cond)
						}
					}
				}
				return true
			})
			_ = info
		})
	}
}

func ruleRunCompression(c *core.Ctx, rule string) {
	c.Check(rule, cmapPkg+".NewToUnicodeFile/runs", "a run of consecutive codes is written as one incrementing range only if every adjacent pair of texts was compared in full with the successor string", func(o *core.Ob) {
		fn := c.Prog.Func(cmapPkg, "NewToUnicodeFile")
		g := fn.Graph()
		info := fn.Info()
		nl := localVar(fn, "needsList", 0)
		var setTrue *core.V
		for _, dv := range defVertices(g, nl) {
			if as, ok := dv.AST.(*ast.AssignStmt); ok && as.Tok == token.ASSIGN {
				if cv := core.ConstOf(info, as.Rhs[0]); cv != nil && cv.String() == "true" {
					setTrue = dv
					o.At(fn.Site(as, "falls back to an explicit list"))
				}
			}
		}
		if setTrue == nil {
			o.Count(1)
			o.Fail("the builder never falls back to an explicit value list (or the decision variable is gone)")
			return
		}
		// the loop containing it
		var head *core.V
		for _, h := range loopHeads(g) {
			if g.ReachFrom(succ(h, core.EdgeTrue), true, core.AvoidVs(h))[setTrue] {
				head = h // innermost (later in source order)
			}
		}
		fs, ok := head.Block.Stmt.(*ast.ForStmt)
		if head == nil || !ok {
			o.Fail("the pairwise comparison loop is missing: the decision is not made by looking at every adjacent pair")
			return
		}
		loop := ""
		if ia, isAs := fs.Init.(*ast.AssignStmt); isAs && len(ia.Rhs) == 1 && fs.Cond != nil {
			loop = strings.ReplaceAll(core.ExprStr(ia.Rhs[0])+";"+core.ExprStr(fs.Cond), " ", "")
		}
		// the pairs (j, j+1) for j = start .. i-2, or (j-1, j) for j = start+1 .. i-1
		upper := loop == "start;j<i-1"
		lower := loop == "start+1;j<i"
		if !upper && !lower {
			o.Unrec("the comparison loop runs over (%s); known forms: j := start; j < i-1 (pairs j, j+1) and j := start+1; j < i (pairs j-1, j)", loop)
			return
		}
		// the guarding comparison
		okCmp := false
		for _, bv := range g.BranchVertices() {
			if bv.Cond.Expr != nil && bv.AST != nil && bv.AST.Pos() >= fs.Body.Pos() && bv.AST.End() <= fs.Body.End() && g.EdgeDominates(setTrue, core.EdgeRef{From: bv, Label: core.EdgeTrue}) {
				s := strings.ReplaceAll(core.ExprStr(bv.Cond.Expr), " ", "")
				o.At(fn.Site(bv.AST, "pair comparison "+s))
				if regexp.MustCompile(`^(\w+)\[j\+1\]\.(\w+)!=nextString\((\w+)\[j\]\.(\w+),1\)$`).MatchString(s) && upper {
					// the texts were stored in the run entries: info[j+1].value != nextString(info[j].value, 1)
					okCmp = true
				} else if m := regexp.MustCompile(`^data\[(\w+)\[([^\]]+)\]\.code\]!=nextString\(data\[(\w+)\[([^\]]+)\]\.code\],1\)$`).FindStringSubmatch(s); m != nil && m[1] == m[3] &&
					((upper && m[2] == "j+1" && m[4] == "j") || (lower && m[2] == "j" && m[4] == "j-1")) {
					okCmp = true
				} else {
					if strings.Contains(s, "nextString(") {
						// the successor comparison in another spelling (operands kept in locals)
						o.Unrec("adjacent texts are compared by %s: whether the two operands are the full texts of adjacent entries is not followed", s)
						okCmp = true
					} else {
						o.Fail("adjacent texts are compared by %s; they must be compared in full: data[info[j+1].code] != nextString(data[info[j].code], 1)", s)
					}
				}
			}
		}
		o.Require(okCmp, "no full comparison of adjacent texts found")
		// the compact form is used only on the !needsList edge
		for _, v := range g.Vs {
			if as, ok := v.AST.(*ast.AssignStmt); ok && c.Prog.Src(as) == "values=[]string{data[info[start].code]}" {
				o.At(fn.Site(as, "compact form"))
				ok2 := g.GuardedBy(v, func(a core.Atom) bool {
					id, isID := ast.Unparen(a.Expr).(*ast.Ident)
					return isID && a.Neg && info.ObjectOf(id) == nl
				})
				o.Require(ok2, "the compact form is used although an explicit list may be needed")
			}
		}
	})
	c.Check(rule, cmapPkg+".(*File).SetMapping/runs", "a CID run continues only while both the last code byte and the CID increase by exactly one from the previous entry", func(o *core.Ob) {
		fn := c.Prog.Func(cmapPkg, "(*File).SetMapping")
		checkRunSteps(c, o, fn)
	})
}

// stepAtom describes a fact "E(k+a) == E(k+a-1) + 1" about adjacent entries:
// the index variable, the expression with the index replaced by a marker,
// and the type of the compared values.
type stepAtom struct {
	k    types.Object
	ctx  string
	typ  types.Type
	step int64 // the difference that is asserted (1 for a run)
}

// adjacentStep interprets an atom that holds as A == B+1 (also B+1 == A,
// A-1 == B, A-B == 1) where B is A with one index k+a replaced by k+a-1.
func adjacentStep(info *types.Info, a core.Atom, render func(ast.Expr) string) *stepAtom {
	cmp, ok := a.AsCmp()
	if !ok || cmp.Op != token.EQL {
		return nil
	}
	type pairT struct {
		later, earlier ast.Expr
		step           int64
	}
	plusC := func(e ast.Expr) (ast.Expr, int64) {
		be, isBin := ast.Unparen(e).(*ast.BinaryExpr)
		if !isBin || (be.Op != token.ADD && be.Op != token.SUB) {
			return nil, 0
		}
		if k, isK := core.IntConst(info, be.Y); isK {
			if be.Op == token.SUB {
				k = -k
			}
			return be.X, k
		}
		if k, isK := core.IntConst(info, be.X); isK && be.Op == token.ADD {
			return be.Y, k
		}
		return nil, 0
	}
	var pairs []pairT
	// L == R'+c: L is c later than R'
	if b, c := plusC(cmp.R); b != nil && c != 0 {
		pairs = append(pairs, pairT{cmp.L, b, c})
	}
	if b, c := plusC(cmp.L); b != nil && c != 0 {
		pairs = append(pairs, pairT{cmp.R, b, c})
	}
	// L - R == c
	for _, side := range [][2]ast.Expr{{cmp.L, cmp.R}, {cmp.R, cmp.L}} {
		if k, isK := core.IntConst(info, side[1]); isK && k != 0 {
			if be, isBin := ast.Unparen(side[0]).(*ast.BinaryExpr); isBin && be.Op == token.SUB {
				pairs = append(pairs, pairT{be.X, be.Y, k})
			}
		}
	}
	for _, p := range pairs {
		later, earlier, step := p.later, p.earlier, p.step
		if _, isConst := core.IntConst(info, later); isConst {
			continue
		}
		for turn := 0; turn < 2; turn++ {
			var k types.Object
			n := 0
			if ctx, ok := shiftedBy(info, later, earlier, &k, &n, render); ok && k != nil && n == 1 {
				return &stepAtom{k: k, ctx: ctx, typ: info.TypeOf(later), step: step}
			}
			// E(k-1) == E(k) - c
			later, earlier, step = earlier, later, -step
		}
	}
	return nil
}

// indexTerm splits an index expression into variable and constant offset (k, k+1, k-1).
func indexTerm(info *types.Info, e ast.Expr) (types.Object, int64, bool) {
	e = ast.Unparen(e)
	if id, ok := e.(*ast.Ident); ok {
		if v, isVar := info.ObjectOf(id).(*types.Var); isVar {
			return v, 0, true
		}
		return nil, 0, false
	}
	be, ok := e.(*ast.BinaryExpr)
	if !ok || (be.Op != token.ADD && be.Op != token.SUB) {
		return nil, 0, false
	}
	id, isID := ast.Unparen(be.X).(*ast.Ident)
	c, isK := core.IntConst(info, be.Y)
	if !isID || !isK {
		return nil, 0, false
	}
	v, isVar := info.ObjectOf(id).(*types.Var)
	if !isVar {
		return nil, 0, false
	}
	if be.Op == token.SUB {
		c = -c
	}
	return v, c, true
}

// shiftedBy compares two expressions structurally.  They may differ in
// index positions only, where a holds k+m and b holds k+m-1 for one and the
// same variable k; diffs counts such positions.  The result is the text of a
// with every such index replaced by a marker.
func shiftedBy(info *types.Info, a, b ast.Expr, k *types.Object, diffs *int, render func(ast.Expr) string) (string, bool) {
	a, b = ast.Unparen(a), ast.Unparen(b)
	switch x := a.(type) {
	case *ast.IndexExpr:
		y, ok := b.(*ast.IndexExpr)
		if !ok {
			return "", false
		}
		base, ok := shiftedBy(info, x.X, y.X, k, diffs, render)
		if !ok {
			return "", false
		}
		if core.SameExpr(info, x.Index, y.Index) {
			inner, ok := shiftedBy(info, x.Index, y.Index, k, diffs, render)
			if !ok {
				return "", false
			}
			return base + "[" + inner + "]", true
		}
		ka, ca, oka := indexTerm(info, x.Index)
		kb, cb, okb := indexTerm(info, y.Index)
		if oka && okb && ka == kb && ca-cb == 1 && (*k == nil || *k == ka) {
			*k = ka
			*diffs++
			return base + "[\u00a7]", true
		}
		// the index itself contains the shifted position: data[info[i].code]
		inner, ok := shiftedBy(info, x.Index, y.Index, k, diffs, render)
		if !ok {
			return "", false
		}
		return base + "[" + inner + "]", true
	case *ast.SelectorExpr:
		y, ok := b.(*ast.SelectorExpr)
		if !ok || x.Sel.Name != y.Sel.Name {
			return "", false
		}
		base, ok := shiftedBy(info, x.X, y.X, k, diffs, render)
		return base + "." + x.Sel.Name, ok
	case *ast.CallExpr:
		y, ok := b.(*ast.CallExpr)
		if !ok || len(x.Args) != len(y.Args) || !core.SameExpr(info, x.Fun, y.Fun) {
			return "", false
		}
		out := core.ExprStr(x.Fun) + "("
		for i := range x.Args {
			s, ok := shiftedBy(info, x.Args[i], y.Args[i], k, diffs, render)
			if !ok {
				return "", false
			}
			if i > 0 {
				out += ","
			}
			out += s
		}
		return out + ")", true
	}
	if core.SameExpr(info, a, b) {
		if render != nil {
			return render(a), true
		}
		return strings.ReplaceAll(core.ExprStr(a), " ", ""), true
	}
	return "", false
}

// checkRunSteps: a run of entries is extended only over adjacent pairs whose
// last code byte AND whose value both increase by exactly one, and what is
// emitted for a run carries the value of the run's first entry.
func checkRunSteps(c *core.Ctx, o *core.Ob, fn *core.Func) {
	g := fn.Graph()
	info := fn.Info()
	isByte := func(t types.Type) bool {
		b, ok := t.Underlying().(*types.Basic)
		return ok && b.Kind() == types.Uint8
	}
	var xs, vs []core.EdgeRef
	var k types.Object
	vctx := ""
	consistent := true
	sawX, sawV := false, false
	// the comparisons as written, whatever the branches make of them
	for _, bv := range g.BranchVertices() {
		if bv.Cond.Expr == nil {
			continue
		}
		bv := bv
		ast.Inspect(bv.Cond.Expr, func(n ast.Node) bool {
			be, ok := n.(*ast.BinaryExpr)
			if !ok || (be.Op != token.EQL && be.Op != token.NEQ) {
				return true
			}
			st := adjacentStep(info, core.Atom{Expr: be, Neg: be.Op == token.NEQ}, func(e ast.Expr) string { return resolveText(g, bv, e, 4) })
			if st == nil {
				return true
			}
			if k != nil && k != st.k {
				consistent = false
			}
			k = st.k
			if st.step != 1 {
				o.FailAt(fn.Site(be, ""), "adjacent entries are required to differ by %d: a range maps consecutive codes to consecutive values, the step must be exactly one", st.step)
			}
			if isByte(st.typ) {
				sawX = true
			} else {
				sawV = true
				if vctx != "" && vctx != st.ctx {
					consistent = false
				}
				vctx = st.ctx
			}
			return true
		})
	}
	for _, bv := range g.BranchVertices() {
		for _, l := range []core.EdgeLabel{core.EdgeTrue, core.EdgeFalse} {
			for _, a := range bv.Implied(l) {
				st := adjacentStep(info, a, func(e ast.Expr) string { return resolveText(g, bv, e, 4) })
				if st == nil || st.step != 1 {
					continue
				}
				if k != nil && k != st.k {
					consistent = false
				}
				k = st.k
				if isByte(st.typ) {
					xs = append(xs, core.EdgeRef{From: bv, Label: l})
					o.At(fn.Site(bv.Cond.Expr, "adjacent code bytes differ by one"))
				} else {
					vs = append(vs, core.EdgeRef{From: bv, Label: l})
					o.At(fn.Site(bv.Cond.Expr, "adjacent values differ by one"))
					if vctx != "" && vctx != st.ctx {
						consistent = false
					}
					vctx = st.ctx
				}
			}
		}
	}
	if !sawX && !sawV {
		o.Unrec("no comparison of adjacent entries of the form E(k) == E(k-1)+1 was found: how runs are delimited is not decided")
		return
	}
	if !consistent {
		o.Unrec("adjacent entries are compared through more than one index variable or value expression")
		return
	}
	// the positions where the pair index advances
	var incs []*core.V
	for _, v := range g.Vs {
		switch st := v.AST.(type) {
		case *ast.IncDecStmt:
			if st.Tok == token.INC && core.ObjOf(info, st.X) == k {
				incs = append(incs, v)
			}
		case *ast.AssignStmt:
			if len(st.Lhs) == 1 && len(st.Rhs) == 1 && core.ObjOf(info, st.Lhs[0]) == k {
				if st.Tok == token.ADD_ASSIGN {
					if c1, isK := core.IntConst(info, st.Rhs[0]); isK && c1 == 1 {
						incs = append(incs, v)
					}
				} else if kk, c1, ok := indexTerm(info, st.Rhs[0]); ok && kk == k && c1 == 1 {
					incs = append(incs, v)
				}
			}
		}
	}
	if len(incs) == 0 {
		o.Unrec("the index %s of the adjacent-pair comparison is not advanced by one in a form that is followed", k.Name())
		return
	}
	// what is emitted: the Value of every Range and Single literal
	type emitted struct {
		lit *ast.CompositeLit
		v   *core.V
		val ast.Expr
	}
	var ems []emitted
	for _, v := range g.Vs {
		if v.AST == nil {
			continue
		}
		ast.Inspect(v.AST, func(n ast.Node) bool {
			if _, isLit := n.(*ast.FuncLit); isLit {
				return false
			}
			cl, ok := n.(*ast.CompositeLit)
			if !ok {
				return true
			}
			if t := info.TypeOf(cl); t != nil && (core.IsNamed(t, "pdf/font/cmap", "Range") || core.IsNamed(t, "pdf/font/cmap", "Single")) {
				ems = append(ems, emitted{cl, v, literalField(info, cl, "Value")})
			}
			return true
		})
	}
	if len(ems) == 0 {
		o.Unrec("no Range or Single literal found: what is emitted for a run is not decided")
		return
	}
	// a run ends where its first position is moved up to the pair index: S = k
	var start types.Object
	var resets []*core.V
	for _, v := range g.Vs {
		as, ok := v.AST.(*ast.AssignStmt)
		if !ok || len(as.Lhs) != len(as.Rhs) || as.Tok != token.ASSIGN {
			continue
		}
		for i, l := range as.Lhs {
			obj := core.ObjOf(info, l)
			if obj == nil || obj == k {
				continue
			}
			if kk, c0, ok := indexTerm(info, as.Rhs[i]); ok && kk == k && c0 == 0 {
				if start != nil && start != obj {
					o.Unrec("more than one variable is set to the pair index %s (%s, %s): which one holds a run's first position is not decided", k.Name(), start.Name(), obj.Name())
					return
				}
				start = obj
				resets = append(resets, v)
				o.At(fn.Site(as, "a new run starts"))
			}
		}
	}
	if start == nil {
		o.Unrec("no assignment S = %s (start of a new run) found", k.Name())
		return
	}
	// what is emitted carries the value of the run's first entry: V(S)
	if vctx != "" {
		pat := regexp.MustCompile("^" + strings.ReplaceAll(regexp.QuoteMeta(vctx), "\u00a7", `(\w+(?:[-+]\d+)?)`) + "$")
		for _, e := range ems {
			o.At(fn.Site(e.lit, "emitted for a run"))
			if e.val == nil {
				o.FailAt(fn.Site(e.lit, ""), "a range or single is emitted without a value")
				continue
			}
			got := resolveText(g, e.v, e.val, 4)
			m := pat.FindStringSubmatch(got)
			if m == nil {
				o.Unrec("%s: the value %s of what is emitted is not the value of one entry (%s)", c.Prog.Pos(e.lit.Pos()), got, vctx)
				return
			}
			if m[1] != core.VarName(start) {
				o.FailAt(fn.Site(e.lit, ""), "what is emitted for a run carries the value at position %s; it must carry the value of the run's first code (position %s)", m[1], start.Name())
			}
		}
	}
	valType := types.Type(nil)
	if len(ems) > 0 && ems[0].val != nil {
		valType = info.TypeOf(ems[0].val)
	}
	otherCmp := func(byteKind bool) bool {
		// a comparison of entry values (or code bytes) at the pair index in a form that is not a step
		for _, bv := range g.BranchVertices() {
			if bv.Cond.Expr == nil {
				continue
			}
			found := false
			ast.Inspect(bv.Cond.Expr, func(n ast.Node) bool {
				be, ok := n.(*ast.BinaryExpr)
				if !ok {
					return true
				}
				switch be.Op {
				case token.EQL, token.NEQ, token.LSS, token.GTR, token.LEQ, token.GEQ:
				default:
					return true
				}
				if adjacentStep(info, core.Atom{Expr: be}, nil) != nil || adjacentStep(info, core.Atom{Expr: be, Neg: true}, nil) != nil {
					return true
				}
				t := info.TypeOf(be.X)
				if t == nil || !core.Mentions(info, be, k) {
					return true
				}
				if byteKind && isByte(t) || !byteKind && valType != nil && types.Identical(t, valType) {
					found = true
				}
				return true
			})
			if found {
				return true
			}
		}
		return false
	}
	for _, q := range incs {
		o.Count(1)
		if g.ReachFrom(q, false, core.AvoidEdges(xs...).With(resets...))[q] {
			if len(xs) == 0 && otherCmp(true) {
				o.Unrec("the last code bytes of adjacent entries are compared in a form that is not followed")
				return
			}
			o.FailAt(fn.Site(q.AST, ""), "a run can be extended from one entry to the next without the test that the last code byte increases by exactly one: codes that are not consecutive would be written as one range")
		}
		if g.ReachFrom(q, false, core.AvoidEdges(vs...).With(resets...))[q] {
			if len(vs) == 0 && otherCmp(false) {
				o.Unrec("the values of adjacent entries are compared in a form that is not followed")
				return
			}
			o.FailAt(fn.Site(q.AST, ""), "a run can be extended from one entry to the next without the test that the value increases by exactly one: a range maps consecutive codes to consecutive values, the codes after the first would get wrong values")
		}
	}
}

func ruleCMapStreamKeys(c *core.Ctx) {
	c.Check("C13-R2", cmapPkg+".Embed~Extract", "the stream-dictionary keys written when a CMap is embedded are read when it is extracted", func(o *core.Ob) {
		pkg := c.Prog.Pkg(cmapPkg)
		wk, rk := map[string]bool{}, map[string]bool{}
		for _, fn := range c.Prog.Funcs(pkg) {
			switch {
			case strings.HasSuffix(fn.Key, ".Embed"):
				for k := range core.DictKeysWritten(fn.Info(), fn.Decl, "pdf", "Dict") {
					wk[k] = true
				}
				o.At(fn.Site(fn.Decl, "writer"))
			case strings.Contains(fn.Key, ".Extract") || strings.Contains(fn.Key, ".extract") || strings.HasSuffix(fn.Key, ".safeExtractCMap"):
				for k := range core.DictKeysRead(fn.Info(), fn.Decl, "pdf", "Dict") {
					rk[k] = true
				}
				o.At(fn.Site(fn.Decl, "reader"))
			}
		}
		o.Fact("written %s; read %s", joinSet(wk), joinSet(rk))
		for _, k := range []string{"UseCMap", "WMode", "CMapName"} {
			o.Count(1)
			if wk[k] && !rk[k] {
				o.Fail("/%s is written but never read back", k)
			}
		}
		o.Require(wk["Type"] && wk["CMapName"], "embedded CMap streams must carry /Type and /CMapName")
	})
}

func ruleCMapBounded(c *core.Ctx) {
	c.Check("C13-R4", cmapPkg+".All/bounded", "enumerating a CMap is bounded by MaxCMapMappings", func(o *core.Ob) {
		pkg := c.Prog.Pkg(cmapPkg)
		n := 0
		for _, fn := range c.Prog.Funcs(pkg) {
			if !strings.HasSuffix(fn.Key, ".All") {
				continue
			}
			src := c.Prog.Src(fn.Decl.Body)
			// the enumeration may live in functions of the package that All refers to (a method
			// value of a small struct, a helper): their bodies count
			seenF := map[*core.Func]bool{fn: true}
			var gather func(f *core.Func, depth int)
			gather = func(f *core.Func, depth int) {
				ast.Inspect(f.Decl.Body, func(m ast.Node) bool {
					id, ok := m.(*ast.Ident)
					if !ok {
						return true
					}
					if tf, isF := f.Info().Uses[id].(*types.Func); isF && tf.Pkg() == fn.Obj.Pkg() {
						if cf := c.Prog.FuncOf(tf); cf != nil && !seenF[cf] && cf.Decl.Body != nil {
							seenF[cf] = true
							src += c.Prog.Src(cf.Decl.Body)
							if depth > 0 {
								gather(cf, depth-1)
							}
						}
					}
					return true
				})
			}
			gather(fn, 1)
			o.At(fn.Site(fn.Decl, ""))
			n++
			o.Require(strings.Contains(src, "MaxCMapMappings") || strings.Contains(src, "maxMappings") || strings.Contains(src, ".all("), "%s has no MaxCMapMappings bound", fn.Key)
		}
		o.Shape(n >= 2, "expected All methods for CMap and ToUnicode files, found %d", n)
	})
}

func ruleSimpleEncode(c *core.Ctx) {
	const pk = "pdf/font/encoding/simpleenc"
	c.Check("C14-R3", pk+".(*Simple).Encode", "a new (glyph, text) pair gets a code that is not in use: distinct pairs never share a code", func(o *core.Ob) {
		fn := c.Prog.Func(pk, "(*Simple).Encode")
		g := fn.Graph()
		info := fn.Info()
		isInfo := func(e ast.Expr) bool {
			if sel, ok := ast.Unparen(e).(*ast.SelectorExpr); ok {
				return sel.Sel.Name == "info"
			}
			// a local that caches the field (infos := t.info, read once before the loop)
			if id, ok := ast.Unparen(e).(*ast.Ident); ok {
				defs := core.AssignsTo(info, fn.Decl, info.ObjectOf(id))
				if len(defs) != 1 {
					return false
				}
				if as, ok := defs[0].(*ast.AssignStmt); ok && len(as.Lhs) == len(as.Rhs) {
					for i, l := range as.Lhs {
						if core.ObjOf(info, l) == info.ObjectOf(id) {
							sel, ok := ast.Unparen(as.Rhs[i]).(*ast.SelectorExpr)
							return ok && sel.Sel.Name == "info"
						}
					}
				}
			}
			return false
		}
		// the in-use lookup: _, used := t.info[candidate], inside the search loop
		var used, codeVar types.Object
		var lookup *core.V
		for _, v := range g.Vs {
			as, ok := v.AST.(*ast.AssignStmt)
			if !ok || len(as.Lhs) != 2 || len(as.Rhs) != 1 || !g.InLoop(v) {
				continue
			}
			if ix, ok := ast.Unparen(as.Rhs[0]).(*ast.IndexExpr); ok && isInfo(ix.X) {
				used, codeVar, lookup = core.ObjOf(info, as.Lhs[1]), core.ObjOf(info, ix.Index), v
				o.At(fn.Site(as, "in-use test of the candidate"))
			}
		}
		if lookup == nil || used == nil || codeVar == nil {
			o.Fail("the in-use test does not look up the candidate code in t.info")
			return
		}
		var head *core.V
		for _, h := range loopHeads(g) {
			if g.ReachFrom(succ(h, core.EdgeTrue), true, core.AvoidVs(h))[lookup] {
				head = h
			}
		}
		if head == nil {
			core.Undecided("search loop not found")
		}
		// the code that is recorded: the index of the store t.info[K] = &codeInfo{...}
		n := 0
		for _, v := range g.Vs {
			as, ok := v.AST.(*ast.AssignStmt)
			if !ok || len(as.Lhs) != 1 || len(as.Rhs) != 1 {
				continue
			}
			ix, ok := ast.Unparen(as.Lhs[0]).(*ast.IndexExpr)
			if !ok || !isInfo(ix.X) || !strings.Contains(c.Prog.Src(as.Rhs[0]), "codeInfo{") {
				continue
			}
			o.At(fn.Site(as, "records the chosen code"))
			if v2, isField := core.ObjOf(info, ix.Index).(*types.Var); isField && v2.IsField() {
				// candidates kept in structs (best.code, cand.code): the field is one object for
				// all of them, so the copies cannot be told apart here
				n++
				o.Unrec("%s: the chosen code is kept in a field of a struct (%s): from which candidate it was copied is not followed", c.Prog.Pos(as.Pos()), core.ExprStr(ix.Index))
				continue
			}
			// every value the index can have was chosen from the loop's
			// candidate on the 'not in use' edge of the lookup
			var leaves []vcase
			var resolve func(at *core.V, e ast.Expr, depth int)
			resolve = func(at *core.V, e ast.Expr, depth int) {
				if core.ObjOf(info, e) == codeVar || depth == 0 {
					leaves = append(leaves, vcase{e, at})
					return
				}
				for _, vc := range valueCases(g, at, e, 1) {
					if vc.V == at {
						leaves = append(leaves, vc)
						continue
					}
					if _, isID := ast.Unparen(vc.Expr).(*ast.Ident); isID && core.ObjOf(info, vc.Expr) != codeVar {
						resolve(vc.V, vc.Expr, depth-1)
					} else {
						leaves = append(leaves, vc)
					}
				}
			}
			resolve(v, ix.Index, 4)
			for _, vc := range leaves {
				n++
				if _, isK := core.IntConst(info, vc.Expr); isK && vc.V != v {
					// the initial value byte(0) of the best-code variable: only
					// reachable when no candidate was chosen, which the
					// table-full exit excludes
					continue
				}
				if core.ObjOf(info, vc.Expr) != codeVar {
					o.FailAt(fn.Site(vc.V.AST, ""), "the chosen code is %s, not the loop's candidate", core.ExprStr(vc.Expr))
					continue
				}
				ok2 := g.GuardedBy(vc.V, func(a core.Atom) bool {
					id, isID := ast.Unparen(a.Expr).(*ast.Ident)
					return isID && a.Neg && a.Tag == nil && info.ObjectOf(id) == used
				})
				if !ok2 {
					o.FailAt(fn.Site(vc.V.AST, ""), "a code can be chosen without passing the 'not in use' edge of the t.info lookup: a second (glyph, text) pair would silently take over a code that strings already written use")
				}
			}
		}
		o.Shape(n >= 2, "expected at least two places that choose a code (exact base-encoding match, best score), found %d", n)
		src := c.Prog.Src(fn.Decl.Body)
		o.Shape(strings.HasPrefix(src, "{key:=gidText{gid:gid,text:text}if_,ok:=t.code[key];ok{return0,ErrDuplicateCode}"), "a pair that already has a code must be rejected first")
		o.Shape(strings.Contains(src, "iflen(t.info)>=256{t.err=ErrOverflowreturn0,ErrOverflow}"), "the table-full exit must precede the search (it guarantees a free code exists)")
		o.Shape(strings.Contains(src, "t.info[bestCode]=&codeInfo{GID:gid,Width:width,Text:text}t.code[key]=bestCode"), "both tables must record the chosen code with glyph, width and text")
		// the overflow exit dominates the loop
		for _, bv := range g.BranchVertices() {
			if bv.Cond.Expr != nil && strings.ReplaceAll(core.ExprStr(bv.Cond.Expr), " ", "") == "len(t.info)>=256" {
				o.Require(g.EdgeDominates(head, core.EdgeRef{From: bv, Label: core.EdgeFalse}), "the search can start with a full table")
			}
		}
	})
}

// ruleRangeIndexStep (C13-R8): a CMap range <first> <last> is a rectangle:
// in every byte position the code byte runs from first[i] to last[i].  The
// position of a code in the range is therefore a mixed-radix number whose
// digit i has the radix last[i]-first[i]+1.  The per-byte update of the
// accumulator in rangeIndex is tabulated against that definition (the loop
// itself is a plain range over the code bytes; the update is one
// assignment).  With radix 256 instead, every range that is narrower than a
// full byte in a low position maps to the wrong CIDs / texts.
func ruleRangeIndexStep(c *core.Ctx) {
	c.Check("C13-R8", cmapPkg+".rangeIndex/step", "the accumulator update is acc*(last[i]-first[i]+1) + (b-first[i]) for every accumulator value, byte and byte range tabulated", func(o *core.Ob) {
		fn := c.Prog.Func(cmapPkg, "rangeIndex")
		g := fn.Graph()
		info := fn.Info()
		// the accumulator: the variable returned (converted) on the success path
		var acc types.Object
		for _, r := range g.Returns() {
			rs := r.AST.(*ast.ReturnStmt)
			if len(rs.Results) == 2 {
				if cv := core.ConstOf(info, rs.Results[1]); cv != nil && cv.String() == "true" {
					acc = core.ObjOf(info, stripConv(info, rs.Results[0]))
				}
			}
		}
		if acc == nil {
			core.Undecided("accumulator not found (success return)")
		}
		var upd *ast.AssignStmt
		n := 0
		for _, dv := range defVertices(g, acc) {
			if as, ok := dv.AST.(*ast.AssignStmt); ok && g.InLoop(dv) {
				upd = as
				n++
			}
		}
		if n != 1 || len(upd.Lhs) != 1 {
			core.Undecided("expected one accumulator update in the loop, found %d", n)
		}
		o.At(fn.Site(upd, "accumulator update"))
		rhs := upd.Rhs[0]
		if upd.Tok != token.ASSIGN {
			core.Undecided("compound accumulator update %s", c.Prog.Src(upd))
		}
		// single-definition locals of the loop body are substituted by their definitions
		subst := map[types.Object]ast.Expr{}
		ast.Inspect(fn.Decl.Body, func(m ast.Node) bool {
			if as, ok := m.(*ast.AssignStmt); ok && as.Tok == token.DEFINE && len(as.Lhs) == len(as.Rhs) {
				for i := range as.Lhs {
					if obj := core.ObjOf(info, as.Lhs[i]); obj != nil && obj != acc && len(core.AssignsTo(info, fn.Decl, obj)) == 1 {
						subst[obj] = as.Rhs[i]
					}
				}
			}
			return true
		})
		// the loop's byte variable
		var bName string
		ast.Inspect(fn.Decl.Body, func(m ast.Node) bool {
			if rs, ok := m.(*ast.RangeStmt); ok && rs.Value != nil {
				bName = core.ExprStr(rs.Value)
			}
			return true
		})
		if bName == "" {
			core.Undecided("range loop over the code bytes not found")
		}
		params := fn.Decl.Type.Params.List
		if len(params) < 1 || len(params[0].Names) != 3 {
			core.Undecided("rangeIndex(first, last, code) signature changed")
		}
		first, last := params[0].Names[0].Name, params[0].Names[1].Name
		doms := map[string][]int64{
			core.VarName(acc): {0, 1, 2, 7, 300},
			bName:             {0, 1, 0x20, 0x21, 0x7e, 0xfe, 0xff},
			first:             {0, 1, 0x20, 0x21},
			last:              {0x21, 0x7e, 0xfe, 0xff},
		}
		cnt, bad := 0, 0
		decided, reason := c.Prog.Tabulate(fn, rhs, subst, doms, func(env map[string]int64, v int64, _ bool) {
			a, _ := core.EnvGet(env, core.VarName(acc))
			b, _ := core.EnvGet(env, bName)
			f, _ := core.EnvGet(env, first)
			l, _ := core.EnvGet(env, last)
			if b < f || b > l {
				return // outside the rectangle: the function has already returned
			}
			cnt++
			want := a*(l-f+1) + (b - f)
			if v != want {
				bad++
				if bad <= 3 {
					o.Fail("%s: for acc=%d, byte=%d in [%d,%d] the update %s gives %d, the mixed-radix position is %d", c.Prog.Pos(upd.Pos()), a, b, f, l, c.Prog.Src(rhs), v, want)
				}
			}
		})
		if !decided {
			core.Undecided("update %s could not be tabulated: %s", c.Prog.Src(rhs), reason)
		}
		o.Count(cnt)
		o.Shape(cnt > 100, "only %d combinations tabulated", cnt)
	})
}

// ruleIncrementBase (C13-R9): for a range written in the "first text,
// incremented" form the text of the i-th code is nextString(Values[0], i):
// the increment is applied to the FIRST text.  Lookup, All and the reverse
// lookup are siblings and must agree; a running value (incrementing the
// previous result) differs as soon as an intermediate value is not
// representable (surrogates become U+FFFD when converted back to a string).
func ruleIncrementBase(c *core.Ctx) {
	c.Check("C13-R9", cmapPkg+".nextString/base", "every reader of a ToUnicode range derives the i-th text from the range's first text and the index", func(o *core.Ob) {
		pkg := c.Prog.Pkg(cmapPkg)
		n := 0
		for _, fn := range c.Prog.Funcs(pkg) {
			if allowedOrOnlyCalledBy(c, fn, func(k string) bool {
				return strings.HasSuffix(k, ".NewToUnicodeFile") || strings.HasSuffix(k, ".nextString")
			}, 0) {
				continue // the builder (and helpers only it calls) compares adjacent texts: a different use
			}
			info := fn.Info()
			for _, call := range core.CallsTo(info, fn.Decl.Body, true, cmapPkg+".nextString") {
				n++
				o.At(fn.Site(call, "i-th text of a range"))
				// locals defined once stand for their definition (values := r.Values; first := values[0])
				running := false
				single := func(e ast.Expr) ast.Expr {
					for steps := 0; steps < 4; steps++ {
						id, isID := ast.Unparen(e).(*ast.Ident)
						if !isID {
							return e
						}
						obj, isVar := info.ObjectOf(id).(*types.Var)
						if !isVar || obj.IsField() {
							return e
						}
						ds := core.AssignsTo(info, fn.Decl, obj)
						if len(ds) != 1 {
							if len(ds) > 1 {
								running = true
							}
							return e
						}
						as, isAs := ds[0].(*ast.AssignStmt)
						if !isAs || len(as.Lhs) != len(as.Rhs) {
							return e
						}
						for i, l := range as.Lhs {
							if core.ObjOf(info, l) == obj {
								e = as.Rhs[i]
							}
						}
					}
					return e
				}
				base := ast.Unparen(single(call.Args[0]))
				ix, ok := base.(*ast.IndexExpr)
				okBase := false
				if ok {
					if k, isK := core.IntConst(info, ix.Index); isK && k == 0 {
						if sel, isSel := ast.Unparen(single(ix.X)).(*ast.SelectorExpr); isSel && sel.Sel.Name == "Values" {
							okBase = true
						}
					}
				}
				if _, isIx := base.(*ast.IndexExpr); !okBase && !running && !isIx {
					if _, isCall := base.(*ast.CallExpr); !isCall {
						o.Unrec("%s: the text is derived from %s: not traced to the range's first text Values[0]", c.Prog.Pos(call.Pos()), c.Prog.Src(call.Args[0]))
						okBase = true
					}
				}
				if !okBase {
					o.FailAt(fn.Site(call, ""), "%s: the text is derived from %s, not from the range's first text Values[0]", c.Prog.Pos(call.Pos()), c.Prog.Src(call.Args[0]))
				}
				if _, isConst := core.IntConst(info, call.Args[1]); isConst {
					o.FailAt(fn.Site(call, ""), "%s: the increment is the constant %s, not the index of the code in the range", c.Prog.Pos(call.Pos()), c.Prog.Src(call.Args[1]))
				}
			}
		}
		// (the three readers may share one helper that makes the call)
		o.Shape(n >= 1, "no reader of a ToUnicode range calls nextString any more (found %d calls)", n)
	})
}

// identUse returns some identifier node of fn that refers to obj.
func identUse(fn *core.Func, obj types.Object) *ast.Ident {
	var out *ast.Ident
	ast.Inspect(fn.Decl, func(n ast.Node) bool {
		if id, ok := n.(*ast.Ident); ok && out == nil && fn.Info().ObjectOf(id) == obj {
			out = id
		}
		return out == nil
	})
	return out
}

func intLit(n int64) ast.Expr {
	if n < 0 {
		return &ast.UnaryExpr{Op: token.SUB, X: &ast.BasicLit{Kind: token.INT, Value: itoa(int(-n))}}
	}
	return &ast.BasicLit{Kind: token.INT, Value: itoa(int(n))}
}

// ruleSimpleWidthsWindow (C14-R8): the reader accepts every /Widths array
// that lies inside the code range: FirstChar in 0..255, 1..256 entries and
// FirstChar+len <= 256 (an array that ends exactly at code 255 is the normal
// case for fonts that use code 255).  The conditions under which
// getSimpleWidths reaches its copy loop must hold for all such inputs, and
// the store into the 256-entry table must stay inside it.
func ruleSimpleWidthsWindow(c *core.Ctx) {
	const pk = "pdf/graphics/extract"
	c.Check("C14-R8", pk+".getSimpleWidths/window", "every /Widths array inside the code range 0..255 is read (none is rejected as a whole)", func(o *core.Ob) {
		fn := c.Prog.Func(pk, "getSimpleWidths")
		g := fn.Graph()
		info := fn.Info()
		// FirstChar and Widths variables: the results of the cursor reads of those keys
		var firstChar, widths types.Object
		ast.Inspect(fn.Decl.Body, func(n ast.Node) bool {
			as, ok := n.(*ast.AssignStmt)
			if !ok || len(as.Rhs) != 1 {
				return true
			}
			for key, dst := range map[string]*types.Object{"FirstChar": &firstChar, "Widths": &widths} {
				found := false
				ast.Inspect(as.Rhs[0], func(m ast.Node) bool {
					if ix, ok := m.(*ast.IndexExpr); ok {
						if s, ok := core.StringConst(info, ix.Index); ok && s == key {
							found = true
						}
					}
					return true
				})
				if found {
					*dst = core.ObjOf(info, as.Lhs[0])
				}
			}
			return true
		})
		if firstChar == nil || widths == nil {
			core.Undecided("the variables holding /FirstChar and /Widths were not found")
		}
		// the copy loop
		var loop *core.V
		var loops []*core.V
		for _, h := range loopHeads(g) {
			if h.Cond.Range != nil && core.ObjOf(info, h.Cond.Range.X) == widths {
				loop = h
				loops = append(loops, h)
			}
		}
		if loop == nil {
			core.Undecided("the loop over the /Widths array was not found")
		}
		o.At(fn.Site(loop.Cond.Range, "copy loop"))
		fc := identUse(fn, firstChar)
		wd := identUse(fn, widths)
		ln := &ast.CallExpr{Fun: &ast.Ident{Name: "len"}, Args: []ast.Expr{wd}}
		legal := core.Formula{Fn: fn, Atoms: []core.Atom{
			{Expr: &ast.BinaryExpr{X: wd, Op: token.NEQ, Y: &ast.Ident{Name: "nil"}}},
			{Expr: &ast.BinaryExpr{X: fc, Op: token.GEQ, Y: intLit(0)}},
			{Expr: &ast.BinaryExpr{X: fc, Op: token.LEQ, Y: intLit(255)}},
			{Expr: &ast.BinaryExpr{X: ln, Op: token.GEQ, Y: intLit(1)}},
			{Expr: &ast.BinaryExpr{X: &ast.BinaryExpr{X: fc, Op: token.ADD, Y: ln}, Op: token.LEQ, Y: intLit(256)}},
		}}
		// the array may be copied by one of several loops (a fast path and a general one):
		// a legal array must reach one of them
		var atoms []core.Atom
		var alts []core.Formula
		for _, lp := range loops {
			var as []core.Atom
			for _, a := range g.DominatingAtoms(lp) {
				if core.Mentions(info, a.Expr, firstChar) || core.Mentions(info, a.Expr, widths) {
					as = append(as, a)
				}
			}
			alts = append(alts, core.Formula{Fn: fn, Atoms: as})
			atoms = as
		}
		o.Count(len(atoms) + 1)
		holds, counter, decided := c.Prog.ImpliesAny(legal, alts)
		if !decided {
			core.Undecided("acceptance condition not decided: %s", counter)
		}
		if !holds {
			o.Fail("%s: a /Widths array inside the code range is rejected: %s (conditions for reading it: %s)", c.Prog.Pos(loop.Cond.Range.Pos()), counter, c.Prog.FormulaString(core.Formula{Atoms: atoms}))
		}
	})
}

// ruleDifferencesArray (C14-R9): a /Differences array is a sequence of runs
// "code name name ...": a name without a preceding code has no meaning and is
// dropped by readers.  The writer loops over the 256 codes and remembers in a
// state variable where the previous run ended; the integer must be written
// (a) for the first entry whatever its code is, and (b) for every entry whose
// code does not continue the previous run, and only for those.  Decided by
// tabulating the writer's own guard and state update for all 256 codes.
func ruleDifferencesArray(c *core.Ctx) {
	const pk = "pdf/font/encoding"
	fn := c.Prog.Func(pk, "Simple.AsPDFSimple")
	g := fn.Graph()
	info := fn.Info()
	// loops "for code := range 256" that append a pdf.Name
	n := 0
	for _, h := range loopHeads(g) {
		h := h
		rs := h.Cond.Range
		if rs == nil || rs.Key == nil {
			continue
		}
		if k, ok := core.IntConst(info, rs.X); !ok || k != 256 {
			continue
		}
		code := core.ObjOf(info, rs.Key)
		// appends inside the loop
		var intApp, nameApp *core.V
		inLoop := naturalLoop(g, h) // by membership, not by position: two folded-in copies of one helper share their positions
		for _, v := range g.Vs {
			as, ok := v.AST.(*ast.AssignStmt)
			if !ok || len(as.Rhs) != 1 || as.Pos() < rs.Body.Pos() || as.End() > rs.Body.End() || !inLoop[v] {
				continue
			}
			call, ok := ast.Unparen(as.Rhs[0]).(*ast.CallExpr)
			if !ok || len(call.Args) != 2 {
				continue
			}
			if id, ok := call.Fun.(*ast.Ident); !ok || id.Name != "append" {
				continue
			}
			t := info.TypeOf(call.Args[1])
			switch {
			case core.IsNamed(t, "pdf", "Integer"):
				intApp = v
			case core.IsNamed(t, "pdf", "Name"):
				nameApp = v
			}
		}
		if intApp == nil || nameApp == nil {
			continue
		}
		n++
		c.Check("C14-R9", fn.Key+"/differences#"+itoa(n), "the code is written before the first name and whenever the run of consecutive codes is interrupted", func(o *core.Ob) {
			o.At(fn.Site(intApp.AST, "code written"))
			o.At(fn.Site(nameApp.AST, "name written"))
			// the guard of the integer append: the innermost condition whose true edge dominates it and mentions code
			var guard *core.V
			for _, bv := range g.BranchVertices() {
				if bv.Cond.Expr != nil && bv.AST != nil && bv.Cond.Expr.Pos() >= rs.Body.Pos() && bv.Cond.Expr.End() <= rs.Body.End() && inLoop[bv] &&
					g.EdgeDominates(intApp, core.EdgeRef{From: bv, Label: core.EdgeTrue}) && !g.EdgeDominates(nameApp, core.EdgeRef{From: bv, Label: core.EdgeTrue}) {
					guard = bv
				}
			}
			if guard == nil {
				core.Undecided("guard of the integer append not found")
			}
			// the state variable: mentioned in the guard, assigned in the loop, not the loop variable
			var state types.Object
			ast.Inspect(guard.Cond.Expr, func(m ast.Node) bool {
				if id, ok := m.(*ast.Ident); ok {
					if obj, ok := info.ObjectOf(id).(*types.Var); ok && obj != code && !obj.IsField() {
						state = obj
					}
				}
				return true
			})
			if state == nil {
				core.Undecided("state variable of the run detection not found in %s", c.Prog.Src(guard.Cond.Expr))
			}
			var init, upd ast.Expr
			for _, d := range core.AssignsTo(info, fn.Decl, state) {
				as, ok := d.(*ast.AssignStmt)
				if !ok || len(as.Lhs) != 1 || len(as.Rhs) != 1 {
					core.Undecided("assignment to %s not understood", core.VarName(state))
				}
				if as.Pos() >= rs.Body.Pos() && as.End() <= rs.Body.End() {
					upd = as.Rhs[0]
					// the update happens together with the name
					uv := g.VertexOf(as)
					o.Require(uv != nil && (g.Dominates(nameApp, uv) || g.Dominates(uv, nameApp)), "the run state is updated on a different path than the name is written")
				} else if as.End() <= rs.Pos() {
					init = as.Rhs[0] // the last one before the loop wins (source order)
				}
			}
			if init == nil || upd == nil {
				core.Undecided("initial value or update of %s not found", core.VarName(state))
			}
			s0, ok := core.IntConst(info, init)
			if !ok {
				core.Undecided("initial value of %s is not a constant", core.VarName(state))
			}
			var codes []int64
			for i := int64(0); i < 256; i++ {
				codes = append(codes, i)
			}
			// (a) first entry
			cnt := 0
			dec, why := c.Prog.Tabulate(fn, guard.Cond.Expr, nil, map[string][]int64{core.VarName(code): codes, core.VarName(state): {s0}}, func(env map[string]int64, _ int64, b bool) {
				cnt++
				if !b {
					cv, _ := core.EnvGet(env, core.VarName(code))
					if cnt >= 0 {
						o.Fail("%s: when the first entry of the array has code %d, no code is written before the name (%s with %s = %d is false)", c.Prog.Pos(guard.Cond.Expr.Pos()), cv, c.Prog.Src(guard.Cond.Expr), core.VarName(state), s0)
						cnt = -1000
					}
				}
			})
			if !dec {
				core.Undecided("guard not tabulated: %s", why)
			}
			// (b) continuation
			bad := 0
			for _, prev := range codes {
				var s1 int64
				dec, why := c.Prog.Tabulate(fn, upd, nil, map[string][]int64{core.VarName(code): {prev}, core.VarName(state): {s0}}, func(_ map[string]int64, v int64, _ bool) { s1 = v })
				if !dec {
					core.Undecided("state update not tabulated: %s", why)
				}
				dec, why = c.Prog.Tabulate(fn, guard.Cond.Expr, nil, map[string][]int64{core.VarName(code): codes, core.VarName(state): {s1}}, func(env map[string]int64, _ int64, b bool) {
					cv, _ := core.EnvGet(env, core.VarName(code))
					if cv <= prev {
						return
					}
					want := cv != prev+1
					if b != want {
						bad++
						if bad <= 2 {
							o.Fail("%s: after an entry for code %d, an entry for code %d is written %s its code", c.Prog.Pos(guard.Cond.Expr.Pos()), prev, cv, map[bool]string{true: "with", false: "without"}[b])
						}
					}
				})
				if !dec {
					core.Undecided("guard not tabulated: %s", why)
				}
			}
			o.Count(256 + 256*255/2)
		})
	}
	c.Floor("C14-R9", 2)
}

// ruleSimpleCodesSiblings (C14-R1): the three reader-side decoders of simple
// fonts (Type 1, TrueType, Type 3) are copies of one algorithm and must
// agree: for a mapped code the CID is code+1 computed in the CID type (an
// addition in the byte type wraps at 255), 0 for an unmapped one; widths come
// from the dictionary's table divided by 1000 (Type 3: through the matrix).
// The writer side (simpleenc) hands out the same CIDs; the relation
// extracted from each sibling is compared with the others.
func ruleSimpleCodesSiblings(c *core.Ctx) {
	const pk = "pdf/font/dict"
	c.Check("C14-R1", pk+".Codes/siblings", "the simple-font decoders agree on how a code becomes a CID, and compute it without 8-bit overflow", func(o *core.Ob) {
		var rel []string
		var names []string
		for _, name := range []string{"(*t1Font).Codes", "(*ttFont).Codes", "(*t3Font).Codes"} {
			fn := c.Prog.FuncOpt(pk, name)
			if fn == nil {
				core.Undecided("%s.%s not found", pk, name)
			}
			info := fn.Info()
			var rhs []string
			seenRhs := map[string]bool{}
			var scan func(fn *core.Func, depth int)
			scan = func(fn *core.Func, depth int) {
				info := fn.Info()
				ast.Inspect(fn.Decl.Body, func(m ast.Node) bool {
					// a helper of the package that decodes one code (f.decode(code))
					if call, isCall := m.(*ast.CallExpr); isCall && depth < 2 {
						if callee := core.Callee(info, call); callee != nil && callee.Pkg() == fn.Obj.Pkg() {
							if cf := c.Prog.FuncOf(callee); cf != nil && cf != fn && cf.Decl.Body != nil {
								scan(cf, depth+1)
							}
						}
					}
					as, ok := m.(*ast.AssignStmt)
					if !ok || len(as.Lhs) != 1 || len(as.Rhs) != 1 {
						return true
					}
					sel, ok := ast.Unparen(as.Lhs[0]).(*ast.SelectorExpr)
					if !ok || sel.Sel.Name != "CID" {
						return true
					}
					o.Count(1)
					o.At(fn.Site(as, "CID of a code"))
					// the zero value is what an unmapped code has anyway: the relation compared is the mapped one
					if k, isK := core.IntConst(info, as.Rhs[0]); !(isK && k == 0) && !seenRhs[c.Prog.Src(as.Rhs[0])] {
						seenRhs[c.Prog.Src(as.Rhs[0])] = true
						rhs = append(rhs, c.Prog.Src(as.Rhs[0]))
					}
					// no arithmetic in an 8-bit type inside the value
					ast.Inspect(as.Rhs[0], func(k ast.Node) bool {
						if be, ok := k.(*ast.BinaryExpr); ok && (be.Op == token.ADD || be.Op == token.SUB) {
							if b, ok := info.TypeOf(be).Underlying().(*types.Basic); ok && (b.Kind() == types.Uint8 || b.Kind() == types.Int8) {
								if tv, isConst := info.Types[be]; !isConst || tv.Value == nil {
									o.FailAt(fn.Site(be, ""), "%s: %s is computed in an 8-bit type: code 255 wraps to 0, the CID of .notdef", c.Prog.Pos(be.Pos()), c.Prog.Src(be))
								}
							}
						}
						return true
					})
					return true
				})
			}
			scan(fn, 0)
			_ = info
			if len(rhs) == 0 {
				o.Unrec("%s: no assignment to the CID of a code was found in the decoder or the helpers it calls", name)
				continue
			}
			sort.Strings(rhs)
			rel = append(rel, strings.Join(rhs, " | "))
			names = append(names, name)
		}
		if len(rel) == 0 {
			return
		}
		for i := 1; i < len(rel); i++ {
			if rel[i] != rel[0] {
				o.Fail("%s computes the CID as {%s}, %s as {%s}", names[0], rel[0], names[i], rel[i])
			}
		}
		o.Fact("CID relation: %s", rel[0])
	})
}

// ruleFontSelectionIdentity (C14-R2): the content builder skips a redundant
// Tf operator only when the very same font instance is already selected.
// Two instances of one font program allocate codes independently, so an
// equivalence coarser than identity makes strings encoded by one instance be
// decoded with the other.
func ruleFontSelectionIdentity(c *core.Ctx) {
	const pk = "pdf/graphics/content/builder"
	c.Check("C14-R2", pk+".(*Builder).TextSetFont/identity", "the redundant-Tf shortcut compares the selected font with the requested one by identity", func(o *core.Ob) {
		fn := c.Prog.Func(pk, "(*Builder).TextSetFont")
		g := fn.Graph()
		info := fn.Info()
		f := fn.Info().Defs[fn.Decl.Type.Params.List[0].Names[0]]
		emits := callVerticesSuffix(g, ".emit")
		if len(emits) == 0 {
			core.Undecided("TextSetFont does not emit an operator")
		}
		n := 0
		for _, r := range g.Returns() {
			// returns that skip the emit
			if g.ReachFrom(g.Entry, true, core.AvoidVs(emits[0].V))[r] == false {
				continue
			}
			// which conditions lead here? those mentioning the font parameter
			for _, a := range g.DominatingAtoms(r) {
				if !core.Mentions(info, a.Expr, f) {
					continue
				}
				n++
				o.Count(1)
				o.At(fn.Site(a.Expr, "font comparison"))
				cmp, ok := a.AsCmp()
				if !ok || cmp.Op != token.EQL || !(core.ObjOf(info, cmp.L) == f || core.ObjOf(info, cmp.R) == f) {
					o.FailAt(fn.Site(a.Expr, ""), "%s: the shortcut is taken when %s holds; only identity (==) of the instances guarantees that both use the same code allocation", c.Prog.Pos(a.Expr.Pos()), c.Prog.Src(a.Expr))
				}
			}
		}
		o.Require(n >= 1, "no comparison of the font instance guards the shortcut")
	})
}

// ruleRectangularRanges (C13-R10): a CMap range <first> <last> is a
// rectangle: byte i of a code runs from first[i] to last[i].  Lookup
// (rangeIndex), enumeration (codesInRange) and validity (rangeIsValid) must
// share that reading, otherwise enumeration lists codes that lookup reports
// unmapped.  rangeIsValid decides per byte position (a lexicographic
// comparison of the two byte strings accepts <00F0>..<010F>, which is empty
// as a rectangle); and rangeIndex, whose result is capped at MaxInt32
// because it is an index, is not used as a pure membership test (notdef
// ranges have no index and may span the whole 4-byte code space).
func ruleRectangularRanges(c *core.Ctx) {
	c.Check("C13-R10", cmapPkg+".rangeIsValid/per-byte", "a range is valid iff first[i] <= last[i] in every byte position: the function rejects on a per-position comparison inside a loop over the positions and uses no lexicographic comparison", func(o *core.Ob) {
		fn := c.Prog.Func(cmapPkg, "rangeIsValid")
		g := fn.Graph()
		info := fn.Info()
		o.At(fn.Site(fn.Decl, ""))
		params := fn.Decl.Type.Params.List
		if len(params) < 1 || len(params[0].Names) != 2 {
			core.Undecided("rangeIsValid(first, last) signature changed")
		}
		first, last := info.Defs[params[0].Names[0]], info.Defs[params[0].Names[1]]
		for _, call := range core.CallsTo(info, fn.Decl.Body, false, "bytes.Compare", "bytes.Equal", "slices.Compare") {
			o.Count(1)
			o.FailAt(fn.Site(call, ""), "%s: %s compares the two ends as byte strings; a range is a rectangle and has to be checked position by position", c.Prog.Pos(call.Pos()), c.Prog.Src(call))
		}
		found := false
		for _, bv := range g.BranchVertices() {
			if bv.Cond.Expr == nil || !g.InLoop(bv) {
				continue
			}
			for _, l := range []core.EdgeLabel{core.EdgeTrue, core.EdgeFalse} {
				for _, a := range bv.Implied(l) {
					cmp, ok := a.AsCmp()
					if !ok {
						continue
					}
					lx, lok := ast.Unparen(cmp.L).(*ast.IndexExpr)
					rx, rok := ast.Unparen(cmp.R).(*ast.IndexExpr)
					if !lok || !rok || !core.SameExpr(info, lx.Index, rx.Index) {
						continue
					}
					lo, ro := core.ObjOf(info, lx.X), core.ObjOf(info, rx.X)
					gt := (lo == first && ro == last && cmp.Op == token.GTR) || (lo == last && ro == first && cmp.Op == token.LSS)
					if !gt {
						continue
					}
					// on this edge the function returns false
					for v := range g.ReachFrom(succ(bv, l), true, core.AvoidVs(bv)) {
						if rs, ok := v.AST.(*ast.ReturnStmt); ok && len(rs.Results) == 1 {
							if cv := core.ConstOf(info, rs.Results[0]); cv != nil && cv.String() == "false" && g.EdgeDominates(v, core.EdgeRef{From: bv, Label: l}) {
								found = true
							}
						}
					}
				}
			}
		}
		o.Count(1)
		o.Require(found, "no per-position test first[i] > last[i] that rejects the range was found")
	})
	c.Check("C13-R10", cmapPkg+".rangeIndex/callers", "every caller of rangeIndex uses the index it returns (the function caps the position at MaxInt32 and must not serve as a membership test for ranges that have no index)", func(o *core.Ob) {
		pkg := c.Prog.Pkg(cmapPkg)
		n := 0
		for _, fn := range c.Prog.Funcs(pkg) {
			info := fn.Info()
			ast.Inspect(fn.Decl.Body, func(m ast.Node) bool {
				as, ok := m.(*ast.AssignStmt)
				if !ok || len(as.Rhs) != 1 {
					if es, isES := m.(*ast.ExprStmt); isES {
						if call, ok := core.IsCallTo(info, es.X, cmapPkg+".rangeIndex"); ok {
							o.FailAt(fn.Site(call, ""), "%s: result of rangeIndex dropped", c.Prog.Pos(call.Pos()))
						}
					}
					return true
				}
				call, ok := core.IsCallTo(info, as.Rhs[0], cmapPkg+".rangeIndex")
				if !ok {
					return true
				}
				n++
				o.Count(1)
				o.At(fn.Site(call, "position in range"))
				if len(as.Lhs) != 2 {
					return true
				}
				if id, ok := as.Lhs[0].(*ast.Ident); ok && id.Name == "_" {
					o.FailAt(fn.Site(call, ""), "%s: %s uses rangeIndex only to test membership: codes whose position exceeds MaxInt32 are reported as outside the range", c.Prog.Pos(call.Pos()), fn.Key)
				}
				return true
			})
		}
		o.Shape(n >= 2, "expected at least two callers of rangeIndex, found %d", n)
	})
}

// ruleRangePositionIndex (C13-R15): the value of the i-th code of a range is
// a function of the range's first value and the position i of the code in
// the rectangle (lookup computes it that way through rangeIndex).  Every
// enumeration over codesInRange must use the position the iterator yields: a
// running counter that is advanced only for codes the codec accepts falls
// behind as soon as the range contains a rejected code.  And whether an entry
// of a child CMap is present does not depend on its value: CID 0 is a
// legitimate mapping that overrides the parent, so LookupCID never compares
// a CID with zero to decide whether to consult the parent.
func ruleRangePositionIndex(c *core.Ctx) {
	c.Check("C13-R15", cmapPkg+".codesInRange/position", "every loop over codesInRange uses the position yielded by the iterator for the value it reports", func(o *core.Ob) {
		pkg := c.Prog.Pkg(cmapPkg)
		n := 0
		for _, fn := range c.Prog.Funcs(pkg) {
			info := fn.Info()
			ast.Inspect(fn.Decl.Body, func(m ast.Node) bool {
				rs, ok := m.(*ast.RangeStmt)
				if !ok {
					return true
				}
				if _, isCall := core.IsCallTo(info, rs.X, cmapPkg+".codesInRange"); !isCall {
					return true
				}
				n++
				o.Count(1)
				o.At(fn.Site(rs, "enumerates a range"))
				key, _ := rs.Key.(*ast.Ident)
				if key == nil || key.Name == "_" {
					o.FailAt(fn.Site(rs, ""), "%s: the position of the code in the range is discarded; the value reported for a code cannot be derived from it", c.Prog.Pos(rs.Pos()))
					return true
				}
				idx := info.ObjectOf(key)
				used := false
				ast.Inspect(rs.Body, func(k ast.Node) bool {
					if id, ok := k.(*ast.Ident); ok && info.ObjectOf(id) == idx {
						used = true
					}
					return true
				})
				if !used {
					o.FailAt(fn.Site(rs, ""), "%s: the position yielded by codesInRange is never used in the loop body", c.Prog.Pos(rs.Pos()))
				}
				return true
			})
		}
		o.Shape(n >= 3, "expected at least three loops over codesInRange, found %d", n)
	})
	c.Check("C13-R15", cmapPkg+".(*File).LookupCID/presence", "whether a child CMap has an entry for a code is not decided by comparing the CID with zero", func(o *core.Ob) {
		pkg := c.Prog.Pkg(cmapPkg)
		start := c.Prog.Func(cmapPkg, "(*File).LookupCID")
		reach := map[*types.Func]bool{start.Obj: true}
		fns := []*core.Func{start}
		for i := 0; i < len(fns); i++ {
			for _, cs := range core.CallsIn(fns[i].Info(), fns[i].Decl, true) {
				if cs.Fn != nil && cs.Fn.Pkg() == pkg.Types && !reach[cs.Fn.Origin()] {
					if f := c.Prog.FuncOf(cs.Fn); f != nil {
						reach[cs.Fn.Origin()] = true
						fns = append(fns, f)
					}
				}
			}
		}
		for _, fn := range fns {
			info := fn.Info()
			o.Count(1)
			ast.Inspect(fn.Decl.Body, func(m ast.Node) bool {
				be, ok := m.(*ast.BinaryExpr)
				if !ok || (be.Op != token.EQL && be.Op != token.NEQ) {
					return true
				}
				for _, pair := range [][2]ast.Expr{{be.X, be.Y}, {be.Y, be.X}} {
					if k, ok := core.IntConst(info, pair[1]); ok && k == 0 && strings.HasSuffix(core.TypeString(info.TypeOf(pair[0])), "CID") {
						o.FailAt(fn.Site(be, ""), "%s: %s treats CID 0 as 'no entry': a child CMap that maps the code to CID 0 no longer overrides its parent", c.Prog.Pos(be.Pos()), c.Prog.Src(be))
					}
				}
				return true
			})
		}
	})
}

// ruleWidthsTrimming (C14-R10): the reader gives every code that is not
// covered by /FirstChar../LastChar the /MissingWidth (default) width.  The
// writer may therefore leave a code out at either end of the range only if
// the code is unmapped or its width IS the default; in particular a mapped
// glyph with advance 0 (a combining mark) must stay when the default is not
// 0.  The conditions of the two trimming loops imply "unmapped or default
// width" (path-condition implication).
func ruleWidthsTrimming(c *core.Ctx) {
	const pk = "pdf/font/dict"
	c.Check("C14-R10", pk+".setSimpleWidths/trim", "a code is trimmed from /Widths only if it is unmapped or has the default width", func(o *core.Ob) {
		fn := c.Prog.Func(pk, "setSimpleWidths")
		info := fn.Info()
		ww := paramObj(fn, "ww")
		enc := paramObj(fn, "enc")
		def := paramObj(fn, "defaultWidth")
		g := fn.Graph()
		// the trimming variables are those stored as /FirstChar and /LastChar
		trim := map[types.Object]string{}
		ast.Inspect(fn.Decl.Body, func(m ast.Node) bool {
			as, ok := m.(*ast.AssignStmt)
			if !ok || len(as.Lhs) != 1 || len(as.Rhs) != 1 {
				return true
			}
			if _, key, ok := core.MapIndexKey(info, as.Lhs[0]); ok && (key == "FirstChar" || key == "LastChar") {
				ast.Inspect(as.Rhs[0], func(x ast.Node) bool {
					if id, ok := x.(*ast.Ident); ok {
						if v, isVar := info.ObjectOf(id).(*types.Var); isVar && !v.IsField() {
							trim[v] = key
						}
					}
					return true
				})
			}
			return true
		})
		if len(trim) != 2 {
			core.Undecided("expected one variable each for /FirstChar and /LastChar, found %d", len(trim))
		}
		// every step that moves one of them inwards (inside a loop) happens
		// only for a code that is unmapped or has the default width
		n := 0
		for _, v := range g.Vs {
			inc, ok := v.AST.(*ast.IncDecStmt)
			if !ok || !g.InLoop(v) {
				continue
			}
			k, ok := ast.Unparen(inc.X).(*ast.Ident)
			if !ok || trim[info.ObjectOf(k)] == "" {
				continue
			}
			n++
			o.Count(1)
			o.At(fn.Site(inc, "trims "+k.Name+" (/"+trim[info.ObjectOf(k)]+")"))
			spec := &ast.BinaryExpr{
				X:  &ast.BinaryExpr{X: &ast.CallExpr{Fun: identUse(fn, enc), Args: []ast.Expr{k}}, Op: token.EQL, Y: &ast.BasicLit{Kind: token.STRING, Value: `""`}},
				Op: token.LOR,
				Y:  &ast.BinaryExpr{X: &ast.IndexExpr{X: identUse(fn, ww), Index: k}, Op: token.EQL, Y: identUse(fn, def)},
			}
			holds, counter, decided := c.Prog.Implies(core.Formula{Fn: fn, Atoms: g.DominatingAtoms(v)}, core.Formula{Fn: fn, Atoms: []core.Atom{{Expr: spec}}})
			if !decided {
				core.Undecided("trimming condition not decided: %s", counter)
			}
			if !holds {
				o.FailAt(fn.Site(inc, ""), "%s: a code is dropped from /Widths although it is mapped and its width differs from the default (%s): it reads back with /MissingWidth", c.Prog.Pos(inc.Pos()), counter)
			}
		}
		o.Shape(n == 2, "expected the two trimming loops (LastChar, FirstChar), found %d", n)
	})
	// composite UTF-8 encoder: occupancy of a code is tested under the key it is stored under
	const ce = "pdf/font/encoding/cidenc"
	c.Check("C14-R10", ce+".compositeUTF8/code-keys", "the table of allocated codes is indexed by packed character codes only, never by a rune value converted to the code type (the two differ for every non-ASCII rune)", func(o *core.Ob) {
		pkg := c.Prog.Pkg(ce)
		n := 0
		for _, fn := range c.Prog.Funcs(pkg) {
			info := fn.Info()
			ast.Inspect(fn.Decl.Body, func(m ast.Node) bool {
				call, ok := m.(*ast.CallExpr)
				if !ok || len(call.Args) != 1 {
					return true
				}
				tv, ok := info.Types[call.Fun]
				if !ok || !tv.IsType() || !strings.HasSuffix(core.TypeString(tv.Type), "charcode.Code") {
					return true
				}
				n++
				o.Count(1)
				at := info.TypeOf(call.Args[0])
				if b, ok := at.Underlying().(*types.Basic); ok && b.Kind() == types.Int32 {
					o.FailAt(fn.Site(call, ""), "%s: %s converts a rune to a character code; codes are the packed UTF-8 bytes (runeToCode), so for non-ASCII runes this is a different key than the one the entry is stored under", c.Prog.Pos(call.Pos()), c.Prog.Src(call))
				}
				return true
			})
		}
		o.Require(n >= 1, "no conversions to charcode.Code found")
	})
}

// ruleCIDEncodeFresh (C14-R10): the UTF-8 CID encoder assigns a code to a new
// (CID, text) pair and records it in e.info.  The code must not be in use:
// otherwise two pairs share a code and the earlier one reads back as the
// later one.  In the normalised Encode every value that can reach the store
// into info, from the expression that computed it on, passes the negative
// edge of a lookup of that very code in info.  (Encode also stores the text
// it was given, not a transformed one.)
func ruleCIDEncodeFresh(c *core.Ctx) {
	const pk = "pdf/font/encoding/cidenc"
	c.Check("C14-R10", pk+".(*compositeUTF8).Encode", "a new (CID, text) pair gets a code that is not in use, and the text recorded for the code is the text given", func(o *core.Ob) {
		fn := c.Prog.Func(pk, "(*compositeUTF8).Encode")
		g := fn.Graph()
		info := fn.Info()
		isInfo := func(e ast.Expr) bool {
			if _, name, ok := selName(e); ok && name == "info" {
				return true
			}
			// a local that caches the field (info := e.info)
			if id, isID := ast.Unparen(e).(*ast.Ident); isID {
				if obj := info.ObjectOf(id); obj != nil {
					if ds := defVertices(g, obj); len(ds) == 1 {
						if rhs, found := rhsFor(info, ds[0], obj); found && rhs != nil {
							_, name, ok := selName(rhs)
							return ok && name == "info"
						}
					}
				}
			}
			return false
		}
		// the store
		var store *core.V
		var codeExpr ast.Expr
		var value ast.Expr
		for _, v := range g.Vs {
			as, ok := v.AST.(*ast.AssignStmt)
			if !ok || len(as.Lhs) != 1 || len(as.Rhs) != 1 {
				continue
			}
			if ix, ok := ast.Unparen(as.Lhs[0]).(*ast.IndexExpr); ok && isInfo(ix.X) {
				store, codeExpr, value = v, ix.Index, as.Rhs[0]
				o.At(fn.Site(as, "code recorded"))
			}
		}
		if !o.Shape(store != nil, "the store into the table of codes was not found") {
			return
		}
		// lookups: _, used := e.info[c]
		type lookup struct {
			used, code types.Object
		}
		var lookups []lookup
		for _, v := range g.Vs {
			as, ok := v.AST.(*ast.AssignStmt)
			if !ok || len(as.Lhs) != 2 || len(as.Rhs) != 1 {
				continue
			}
			if ix, ok := ast.Unparen(as.Rhs[0]).(*ast.IndexExpr); ok && isInfo(ix.X) {
				lookups = append(lookups, lookup{core.ObjOf(info, as.Lhs[1]), core.ObjOf(info, ix.Index)})
			}
		}
		// every origin of the stored code
		origins := valueCases(g, store, codeExpr, 8)
		for _, vc := range origins {
			if vc.V == nil || vc.V == store {
				o.Unrec("the code stored in info is not a local value with visible definitions")
				continue
			}
			// the value of a failing call (return 0, ErrOverflow) does not reach the store
			if as, ok := vc.V.AST.(*ast.AssignStmt); ok && len(as.Rhs) >= 2 {
				failing := false
				for _, r := range as.Rhs {
					if t := info.TypeOf(r); t != nil && core.TypeString(t) == "error" && !core.IsNil(info, r) {
						failing = true
					}
				}
				if failing {
					continue
				}
			}
			o.Count(1)
			// the variable this origin defines
			var defObj types.Object
			if as, ok := vc.V.AST.(*ast.AssignStmt); ok {
				for i, r := range as.Rhs {
					if r == vc.Expr && i < len(as.Lhs) {
						defObj = core.ObjOf(info, as.Lhs[i])
					}
				}
			}
			// paths on which this origin's value is the one that is stored: they do
			// not pass another origin (or this one again)
			var avoid []*core.V
			for _, other := range origins {
				if other.V != nil {
					avoid = append(avoid, other.V)
				}
			}
			// with the flags assigned next to it followed (code, ok = 0, false; if !ok { code, ok = other() }),
			// this origin's value may never be the one stored
			var others []*core.V
			for _, other := range origins {
				if other.V != nil && other.V != vc.V {
					others = append(others, other.V)
				}
			}
			if !g.ReachFromTracked(vc.V, true, core.AvoidVs(others...))[store] {
				continue
			}
			atoms := atomsBetween(g, vc.V, store, avoid)
			// a test made by a helper that reports a boolean (free := !used; if free): the facts behind it
			for _, a := range append([]core.Atom{}, atoms...) {
				atoms = append(atoms, g.ExpandNamed(a)...)
			}
			// the looked-up code may be a copy of the origin's variable (the parameter of a folded-in helper)
			sameCode := func(lkCode types.Object) bool {
				if defObj == nil || lkCode == defObj {
					return true
				}
				for depth, cur := 0, lkCode; depth < 3 && cur != nil; depth++ {
					ds := defVertices(g, cur)
					if len(ds) == 0 {
						return false
					}
					// every definition of the copy that can matter is a plain copy of one variable
					var next types.Object
					for _, d := range ds {
						rhs, ok := rhsFor(info, d, cur)
						if !ok || rhs == nil {
							return false
						}
						o2 := core.ObjOf(info, rhs)
						if o2 == nil {
							return false
						}
						if o2 == defObj {
							return true
						}
						next = o2
					}
					cur = next
				}
				return false
			}
			fresh := false
			for _, a := range atoms {
				id, isID := ast.Unparen(a.Expr).(*ast.Ident)
				if !isID || !a.Neg || a.Tag != nil {
					continue
				}
				for _, lk := range lookups {
					if info.ObjectOf(id) == lk.used && sameCode(lk.code) {
						fresh = true
					}
				}
			}
			if !fresh {
				// no lookup at all on the way is a decision; a lookup whose result the rule cannot
				// connect with this code (through the parameters and results of folded-in helpers) is not
				passes := false
				for _, lv := range g.Vs {
					as, ok := lv.AST.(*ast.AssignStmt)
					if !ok || len(as.Lhs) != 2 || len(as.Rhs) != 1 {
						continue
					}
					if ix, ok := ast.Unparen(as.Rhs[0]).(*ast.IndexExpr); ok && isInfo(ix.X) {
						if g.PathExists(vc.V, lv, nil) && g.PathExists(lv, store, nil) {
							passes = true
						}
					}
				}
				// ... or a helper that was not folded in (nesting too deep) and makes the lookup itself
				for _, cvx := range g.Vs {
					if cvx.AST == nil || passes {
						continue
					}
					for _, cs := range core.CallsIn(info, cvx.AST, false) {
						if cs.Fn == nil || cs.Fn.Exported() || cs.Fn.Pkg() != fn.Obj.Pkg() {
							continue
						}
						h := c.Prog.FuncOf(cs.Fn)
						if h == nil || h.Decl.Body == nil {
							continue
						}
						looksUp := false
						ast.Inspect(h.Decl.Body, func(m ast.Node) bool {
							if as, ok := m.(*ast.AssignStmt); ok && len(as.Lhs) == 2 && len(as.Rhs) == 1 {
								if ix, ok := ast.Unparen(as.Rhs[0]).(*ast.IndexExpr); ok {
									if sel, ok := ast.Unparen(ix.X).(*ast.SelectorExpr); ok && sel.Sel.Name == "info" {
										looksUp = true
									}
								}
							}
							return true
						})
						if looksUp && g.PathExists(vc.V, cvx, nil) && g.PathExists(cvx, store, nil) {
							passes = true
						}
					}
				}
				if os.Getenv("PDFVERIF_DEBUG_C14") != "" {
					fmt.Fprintf(os.Stderr, "C14-R10 origin %s passes=%v inlined=%d\n", c.Prog.Pos(vc.V.AST.Pos()), passes, fn.InlinedCalls)
				}
				if passes && fn.InlinedCalls > 0 {
					o.Unrec("%s: the code %s passes a lookup in the table on its way to the store, but the lookup's result is not connected with it (helpers folded in)", c.Prog.Pos(vc.V.AST.Pos()), core.ExprStr(vc.Expr))
					continue
				}
				o.FailAt(fn.Site(vc.V.AST, ""), "the code %s reaches the table without a lookup that found it unused: a pair that already has this code is overwritten", core.ExprStr(vc.Expr))
			}
		}
		// the recorded text is the parameter, which is not reassigned
		text := paramObj(fn, "text")
		if f := compositeFields(info, value); f != nil && text != nil {
			if tx := f["Text"]; tx != nil {
				o.Count(1)
				o.Require(core.ObjOf(info, tx) == text, "the text recorded for the code is %s, not the text given to Encode", core.ExprStr(tx))
				for _, d := range defVertices(g, text) {
					o.FailAt(fn.Site(d.AST, ""), "the text given to Encode is replaced before it is recorded (%s): writer and reader then report a text that differs from the one shown", c.Prog.Src(d.AST))
				}
			}
		}
	})
}
