package props

import (
	"fmt"
	"go/ast"
	"go/constant"
	"go/token"
	"go/types"
	"sort"
	"strconv"
	"strings"

	"pdfverif/internal/core"
)

// Rules about the control structure of the CCITT decoder (C06-R20..R22,
// shared with C07).  They were written after probing showed that several
// parameter combinations named in the property do not round-trip.

const ccittPk = "pdf/internal/filter/ccittfax"

// ccittMakeUpStates returns the values of the three make-up states.
func ccittMakeUpStates(c *core.Ctx) []int64 {
	var out []int64
	for _, n := range []string{"S_MakeUpW", "S_MakeUpB", "S_MakeUp"} {
		out = append(out, c.Prog.ConstInt(ccittPk, n))
	}
	return out
}

type ccittPath struct {
	// defs: the boolean locals assigned on the path so far, with the value given last
	defs      map[types.Object]ast.Expr
	atoms     []core.Atom
	vs        []*core.V
	exhausted *ast.RangeStmt // the path leaves through the "done" edge of this range loop
	leave     *core.V
}

// ruleCCITTRunLoops: a run is a sequence of make-up codes followed by one
// terminating code.  Every loop that reads codes with decodeRun may be left,
// on well-formed data, only after a terminating code or an EOL: an exit
// taken right after a make-up code leaves the terminating code in the input,
// where it is read as the first code of the next run (or row) with the
// colours exchanged.  The rule enumerates the paths from the decodeRun call
// to every exit of the loop and requires each of them to be infeasible for
// the three make-up states, or to be an exit for an error or for a run that
// is longer than the row (malformed data).
func ruleCCITTRunLoops(c *core.Ctx, rule string) {
	pkg := c.Prog.Pkg(ccittPk)
	mk := ccittMakeUpStates(c)
	maxCols := c.Prog.ConstInt(ccittPk, "maxColumns")
	loops := 0
	for _, fn := range c.Prog.Funcs(pkg) {
		if fn.Decl.Body == nil || fn.Decl.Recv == nil || c.Prog.IsTestFile(fn.Decl.Pos()) {
			continue
		}
		g := fn.Graph()
		for _, v := range g.Vs {
			if v.AST == nil {
				continue
			}
			as, ok := v.AST.(*ast.AssignStmt)
			if !ok || len(as.Lhs) != 2 || len(as.Rhs) != 1 {
				continue
			}
			if _, ok := core.IsCallTo(fn.Info(), as.Rhs[0], ccittPk+".(*Reader).decodeRun"); !ok {
				continue
			}
			if !g.InLoop(v) {
				continue
			}
			loops++
			fn, g, v, as := fn, g, v, as
			c.Check(rule, fn.Key+"/run-loop", "a loop reading run-length codes is left only after a terminating code, an EOL, an error, or a run longer than the row", func(o *core.Ob) {
				info := fn.Info()
				stID, ok := as.Lhs[1].(*ast.Ident)
				if !ok || stID.Name == "_" {
					o.Fail("the state returned by decodeRun is discarded: the loop cannot know whether a terminating code is still due")
					return
				}
				st := info.ObjectOf(stID)
				// the loop: vertices on a cycle through v
				fwd := g.ReachFrom(v, false, nil)
				inLoop := map[*core.V]bool{}
				for u := range fwd {
					if g.ReachFrom(u, false, nil)[v] {
						inLoop[u] = true
					}
				}
				// boolean summaries of the state assigned inside the loop
				summ := map[types.Object]*core.V{}
				summRHS := map[types.Object]ast.Expr{}
				multi := map[types.Object]bool{}
				for u := range inLoop {
					a, ok := u.AST.(*ast.AssignStmt)
					if !ok || len(a.Lhs) != 1 || len(a.Rhs) != 1 || (a.Tok != token.ASSIGN && a.Tok != token.DEFINE) {
						continue
					}
					id, ok := a.Lhs[0].(*ast.Ident)
					if !ok {
						continue
					}
					obj := info.ObjectOf(id)
					if obj == nil || !mentionsObj(info, a.Rhs[0], st) {
						continue
					}
					if _, dup := summ[obj]; dup {
						multi[obj] = true
					}
					summ[obj], summRHS[obj] = u, a.Rhs[0]
				}
				for obj := range multi {
					delete(summ, obj)
					delete(summRHS, obj)
				}
				var paths []ccittPath
				var walk func(u *core.V, p ccittPath, seen map[*core.V]bool)
				walk = func(u *core.V, p ccittPath, seen map[*core.V]bool) {
					if len(paths) > 4000 {
						return
					}
					// a boolean local assigned on the path (done = total > r.Columns) and tested later
					// stands for the value it was given
					defs := p.defs
					if a, isAs := u.AST.(*ast.AssignStmt); isAs && len(a.Lhs) == len(a.Rhs) && (a.Tok == token.ASSIGN || a.Tok == token.DEFINE) {
						for i, l := range a.Lhs {
							if id, isID := ast.Unparen(l).(*ast.Ident); isID {
								if obj := info.ObjectOf(id); obj != nil && isBoolObj(obj) {
									nd := map[types.Object]ast.Expr{}
									for k, v := range defs {
										nd[k] = v
									}
									nd[obj] = a.Rhs[i]
									defs = nd
								}
							}
						}
					}
					for _, e := range u.Succs {
						var implied []core.Atom
						for _, a := range u.Implied(e.Label) {
							if id, isID := ast.Unparen(a.Expr).(*ast.Ident); isID && a.Tag == nil {
								if rhs, has := defs[info.ObjectOf(id)]; has {
									if cv := core.ConstOf(info, rhs); cv != nil && cv.Kind() == constant.Bool {
										if constant.BoolVal(cv) == a.Neg {
											implied = append(implied, core.Atom{Expr: core.FalseExpr}) // the edge cannot be taken
										}
										continue
									}
									implied = append(implied, core.ImpliedBy(rhs, !a.Neg)...)
									continue
								}
							}
							implied = append(implied, a)
						}
						q := ccittPath{defs: defs, atoms: append(append([]core.Atom{}, p.atoms...), implied...), vs: append(append([]*core.V{}, p.vs...), e.To)}
						if u.Cond != nil && u.Cond.Range != nil && e.Label == core.EdgeFalse {
							q.exhausted = u.Cond.Range
						}
						if e.To == v {
							continue // next iteration
						}
						if !inLoop[e.To] {
							q.leave = e.To
							paths = append(paths, q)
							continue
						}
						if seen[e.To] {
							continue
						}
						seen[e.To] = true
						walk(e.To, q, seen)
						delete(seen, e.To)
					}
				}
				walk(v, ccittPath{}, map[*core.V]bool{v: true})
				if len(paths) > 4000 {
					o.Fail("more than 4000 exit paths: undecided")
					return
				}
				o.Require(len(paths) > 0, "the loop has no exit")
				var alts []ccittPath
				for _, p := range paths {
					for _, as := range dnfAtoms(p.atoms) {
						q := p
						q.atoms = as
						alts = append(alts, q)
					}
				}
				for _, p := range alts {
					o.Count(1)
					if p.leave == g.Panic {
						continue
					}
					just := ""
					for _, a := range p.atoms {
						if cmp, ok := a.AsCmp(); ok {
							if core.IsNil(info, cmp.R) && core.IsErrorType(info.TypeOf(cmp.L)) && cmp.Op == token.NEQ {
								just = "error exit"
							}
							// strictly more than a row
							l, r, op := cmp.L, cmp.R, cmp.Op
							if op == token.LSS {
								l, r, op = r, l, token.GTR
							}
							if op == token.GTR && strings.HasSuffix(c.Prog.Src(r), ".Columns") {
								just = "run exceeds the row (malformed data)"
							}
						}
					}
					if just != "" {
						continue
					}
					if p.exhausted != nil {
						// a counted loop: the count must admit the longest run of a row
						tv := info.Types[p.exhausted.X]
						if tv.Value != nil {
							n, _ := constant.Int64Val(tv.Value)
							if n*2560 < maxCols {
								o.FailAt(fn.Site(p.exhausted, "counted loop"), "at most %d codes are read per run, which covers runs up to %d pixels, but rows may have %d columns: a longer run (one make-up code 2560 per 2560 pixels) is cut off and the rest of the row is decoded from the middle of the run", n, n*2560, maxCols)
							}
							continue
						}
						if strings.Contains(c.Prog.Src(p.exhausted.X), "Columns") {
							continue
						}
						o.FailAt(fn.Site(p.exhausted, "counted loop"), "the loop ends after a number of codes that is not derived from the row width")
						continue
					}
					// feasible right after a make-up code?
					for _, m := range mk {
						subst := map[types.Object]ast.Expr{st: &ast.BasicLit{Kind: token.INT, Value: strconv.FormatInt(m, 10)}}
						assigned := map[types.Object]bool{}
						usedEarly := map[types.Object]bool{}
						// order of assignment and use along the path
						ai := 0
						_ = ai
						for _, u := range p.vs {
							for obj, av := range summ {
								if av == u {
									assigned[obj] = true
								}
							}
							if u.Cond != nil && u.Cond.Expr != nil {
								for obj := range summ {
									if !assigned[obj] && mentionsObj(info, u.Cond.Expr, obj) {
										usedEarly[obj] = true
									}
								}
							}
						}
						for obj := range summ {
							if assigned[obj] && !usedEarly[obj] {
								if r := substIdent(info, summRHS[obj], st, subst[st]); r != nil {
									subst[obj] = r
								}
							}
						}
						sat, decided := c.Prog.Satisfiable(core.Formula{Fn: fn, Atoms: p.atoms, Subst: subst})
						if !decided {
							o.FailAt(fn.Site(p.leave.AST, "exit"), "undecided: the path condition %s could not be evaluated", c.Prog.FormulaString(core.Formula{Fn: fn, Atoms: p.atoms}))
							break
						}
						if sat {
							where := fn.Site(as, "decodeRun")
							if p.leave != nil && p.leave.AST != nil {
								where = fn.Site(p.leave.AST, "loop left towards")
							}
							o.FailAt(where, "the loop can be left right after a make-up code (state %d) under [%s]: the terminating code that follows every make-up code stays in the input and is read as the start of the next run, so a row whose last run ends with a make-up code (a run of 64, 128, ... pixels reaching the end of the row) shifts everything after it", m, c.Prog.FormulaString(core.Formula{Fn: fn, Atoms: p.atoms}))
							break
						}
					}
				}
			})
		}
	}
	c.Floor(rule, 2)
	_ = loops
}

func mentionsObj(info *types.Info, e ast.Node, obj types.Object) bool {
	found := false
	ast.Inspect(e, func(n ast.Node) bool {
		if id, ok := n.(*ast.Ident); ok && info.ObjectOf(id) == obj {
			found = true
		}
		return !found
	})
	return found
}

// ruleCCITTLookahead: the decoder looks up to 24 bits ahead of the code it
// decodes.  The function that looks ahead must not store into a field that
// the decoding functions test: otherwise reaching the end of the input while
// looking ahead ends the decoding of codes that are completely present
// (data without a trailing EOFB/RTC, i.e. EndOfBlock false, lose their last
// rows).
func ruleCCITTLookahead(c *core.Ctx, rule string) {
	c.Check(rule, ccittPk+".(*Reader).peekBits/pure", "looking ahead stores nothing into state the decoding loops test", func(o *core.Ob) {
		pkg := c.Prog.Pkg(ccittPk)
		peek := c.Prog.Func(ccittPk, "(*Reader).peekBits")
		// the bit-buffer layer: peekBits and the functions it calls, and consumeBits
		layer := map[string]bool{peek.Key: true}
		if f := c.Prog.FuncOpt(ccittPk, "(*Reader).consumeBits"); f != nil {
			layer[f.Key] = true
		}
		// helpers that only the bit-buffer layer calls (the byte fetch split off peekBits) belong to it
		for round := 0; round < 2; round++ {
			for _, fn := range c.Prog.Funcs(pkg) {
				if fn.Decl.Body == nil || layer[fn.Key] || fn.Obj.Exported() || c.Prog.IsTestFile(fn.Decl.Pos()) {
					continue
				}
				callers, outside := 0, false
				for _, other := range c.Prog.Funcs(pkg) {
					if other.Decl.Body == nil || other == fn || c.Prog.IsTestFile(other.Decl.Pos()) {
						continue
					}
					raw := c.Prog.RawFunc(ccittPk, strings.TrimPrefix(other.Key, ccittPk+"."))
					if raw == nil {
						raw = other
					}
					for _, cs := range core.CallsIn(raw.Info(), raw.Decl.Body, true) {
						if cs.Fn != nil && cs.Fn == fn.Obj {
							callers++
							if !layer[other.Key] {
								outside = true
							}
						}
					}
				}
				if callers > 0 && !outside {
					layer[fn.Key] = true
				}
			}
		}
		fieldOf := func(info *types.Info, e ast.Expr) *types.Var {
			sel, ok := ast.Unparen(e).(*ast.SelectorExpr)
			if !ok {
				return nil
			}
			if s := info.Selections[sel]; s != nil && s.Kind() == types.FieldVal {
				if core.IsNamed(s.Recv(), ccittPk, "Reader") {
					return s.Obj().(*types.Var)
				}
			}
			return nil
		}
		// fields tested by the decoding functions
		tested := map[*types.Var]core.Site{}
		for _, fn := range c.Prog.Funcs(pkg) {
			if fn.Decl.Body == nil || layer[fn.Key] || c.Prog.IsTestFile(fn.Decl.Pos()) || fn.Decl.Recv == nil {
				continue
			}
			if !core.IsNamed(fn.Info().TypeOf(fn.Decl.Recv.List[0].Type), ccittPk, "Reader") {
				continue
			}
			for _, bv := range fn.Graph().BranchVertices() {
				if bv.Cond.Expr == nil {
					continue
				}
				ast.Inspect(bv.Cond.Expr, func(n ast.Node) bool {
					if e, ok := n.(ast.Expr); ok {
						if f := fieldOf(fn.Info(), e); f != nil {
							if _, dup := tested[f]; !dup {
								tested[f] = fn.Site(bv.Cond.Expr, "tested here")
							}
						}
					}
					return true
				})
			}
		}
		o.Shape(len(tested) >= 3, "only %d Reader fields are tested by decoding functions", len(tested))
		// stores of peekBits
		stores := 0
		ast.Inspect(peek.Decl.Body, func(n ast.Node) bool {
			var lhs []ast.Expr
			switch x := n.(type) {
			case *ast.AssignStmt:
				lhs = x.Lhs
			case *ast.IncDecStmt:
				lhs = []ast.Expr{x.X}
			}
			for _, l := range lhs {
				f := fieldOf(peek.Info(), l)
				if f == nil {
					continue
				}
				stores++
				o.Count(1)
				if s, bad := tested[f]; bad {
					o.FailAt(peek.Site(l, "store"), "peekBits stores into Reader.%s, which the decoding functions test (%s): when the look-ahead reaches the end of the input the decoder stops although the bits of the current code are all present, so data that do not end in an end-of-block pattern (EndOfBlock false) lose their last codes", f.Name(), s.Pos)
				}
			}
			return true
		})
		o.Shape(stores >= 2, "the stores by which peekBits fills the bit buffer were not found (the buffer moved into another type?)")
		// calls made by peekBits stay inside the layer or outside the package
		for _, cs := range core.CallsIn(peek.Info(), peek.Decl.Body, true) {
			if cs.Fn != nil && cs.Fn.Pkg() != nil && strings.HasSuffix(cs.Fn.Pkg().Path(), "ccittfax") && !layer[cs.Key] {
				o.FailAt(peek.Site(cs.Call, "call"), "peekBits calls %s, whose stores this rule does not see", cs.Key)
			}
		}
	})
}

// ruleCCITTTagAfterEOL: in the two-dimensional Group 3 scheme (K > 0) every
// EOL is followed by a tag bit, including the EOLs of the return-to-control
// sequence.  A function that completes an EOL (waitForOne) and then goes on
// reading run-length codes must read that bit when K > 0: otherwise the tag
// bits of the RTC are decoded as white runs and a surplus row is produced.
func ruleCCITTTagAfterEOL(c *core.Ctx, rule string) {
	pkg := c.Prog.Pkg(ccittPk)
	sites := 0
	// edges on which K > 0 is known to be false
	notKEdges := func(fn *core.Func, g *core.Graph) []core.EdgeRef {
		return g.GuardEdges(func(a core.Atom) bool {
			cmp, ok := a.AsCmp()
			if !ok || !strings.HasSuffix(c.Prog.Src(cmp.L), ".K") {
				return false
			}
			tv := fn.Info().Types[cmp.R]
			if tv.Value == nil {
				return false
			}
			k, _ := constant.Int64Val(tv.Value)
			switch cmp.Op {
			case token.LEQ, token.EQL:
				return k <= 0
			case token.LSS:
				return k <= 1
			}
			return false
		})
	}
	isTagRead := func(fn *core.Func, cs core.CallSite) bool {
		if strings.HasSuffix(cs.Key, ".(*Reader).readBits") || strings.HasSuffix(cs.Key, ".(*Reader).consumeBits") {
			if len(cs.Call.Args) == 1 {
				if tv := fn.Info().Types[cs.Call.Args[0]]; tv.Value != nil && tv.Value.String() == "1" {
					return true
				}
			}
		}
		return false
	}
	// helpers of the package that read the tag bit (when K > 0) on every path to their return
	tagHelper := map[string]bool{}
	for _, h := range c.Prog.Funcs(pkg) {
		if h.Decl.Body == nil || h.Decl.Recv == nil || c.Prog.IsTestFile(h.Decl.Pos()) {
			continue
		}
		hg := h.Graph()
		var ht []*core.V
		for _, v := range hg.Vs {
			if v.AST == nil {
				continue
			}
			for _, cs := range core.CallsIn(h.Info(), v.AST, false) {
				if isTagRead(h, cs) {
					ht = append(ht, v)
				}
			}
		}
		if len(ht) > 0 && !hg.ReachFrom(hg.Entry, true, core.AvoidVs(ht...).WithEdges(notKEdges(h, hg)...))[hg.Exit] {
			tagHelper[h.Key] = true
		}
	}
	for _, fn := range c.Prog.Funcs(pkg) {
		if fn.Decl.Body == nil || fn.Decl.Recv == nil || c.Prog.IsTestFile(fn.Decl.Pos()) {
			continue
		}
		g := fn.Graph()
		var runs, eols, tags []*core.V
		for _, v := range g.Vs {
			if v.AST == nil {
				continue
			}
			for _, cs := range core.CallsIn(fn.Info(), v.AST, false) {
				switch {
				case strings.HasSuffix(cs.Key, ".(*Reader).decodeRun"):
					runs = append(runs, v)
				case strings.HasSuffix(cs.Key, ".(*Reader).waitForOne"):
					eols = append(eols, v)
				case isTagRead(fn, cs):
					tags = append(tags, v)
				case tagHelper[cs.Key]:
					tags = append(tags, v)
				}
			}
		}
		if len(runs) == 0 || len(eols) == 0 {
			continue
		}
		for i, w := range eols {
			sites++
			fn, g, w := fn, g, w
			c.Check(rule, fmt.Sprintf("%s/eol#%d", fn.Key, i), "after an EOL the tag bit is read before the next run-length code when K > 0", func(o *core.Ob) {
				notK := notKEdges(fn, g)
				reach := g.ReachFrom(w, false, core.AvoidVs(tags...).WithEdges(notK...))
				o.Count(len(runs))
				for _, r := range runs {
					if reach[r] {
						o.FailAt(fn.Site(w.AST, "EOL completed"), "a run-length code is read (%s) after this EOL without reading the tag bit that follows every EOL when K > 0: the tag bits of the return-to-control sequence are decoded as runs, which yields a surplus row at the end of every K > 0 stream that relies on RTC (no /Rows)", fn.Site(r.AST, "").Pos)
						return
					}
				}
			})
		}
	}
	c.Floor(rule, 1)
	_ = sites
	_ = sort.Strings
}

// dnfAtoms splits compound atoms (disjunctions that hold, conjunctions that
// fail) into alternatives, each a conjunction of simple atoms.
func dnfAtoms(atoms []core.Atom) [][]core.Atom {
	out := [][]core.Atom{nil}
	for _, a := range atoms {
		alts := dnfAtom(a)
		var next [][]core.Atom
		for _, pre := range out {
			for _, alt := range alts {
				next = append(next, append(append([]core.Atom{}, pre...), alt...))
			}
		}
		out = next
		if len(out) > 256 {
			return [][]core.Atom{atoms}
		}
	}
	return out
}

func dnfAtom(a core.Atom) [][]core.Atom {
	if a.Tag != nil {
		return [][]core.Atom{{a}}
	}
	e := ast.Unparen(a.Expr)
	switch x := e.(type) {
	case *ast.UnaryExpr:
		if x.Op == token.NOT {
			return dnfAtom(core.Atom{Expr: x.X, Neg: !a.Neg})
		}
	case *ast.BinaryExpr:
		l, r := dnfAtom(core.Atom{Expr: x.X, Neg: a.Neg}), dnfAtom(core.Atom{Expr: x.Y, Neg: a.Neg})
		if (x.Op == token.LOR && !a.Neg) || (x.Op == token.LAND && a.Neg) {
			return append(l, r...)
		}
		if (x.Op == token.LAND && !a.Neg) || (x.Op == token.LOR && a.Neg) {
			var out [][]core.Atom
			for _, p := range l {
				for _, q := range r {
					out = append(out, append(append([]core.Atom{}, p...), q...))
				}
			}
			return out
		}
	}
	return [][]core.Atom{{core.Atom{Expr: e, Neg: a.Neg}}}
}

// substIdent returns a copy of e in which every use of obj is replaced by
// repl; nil when e has a form the copy does not cover.
func substIdent(info *types.Info, e ast.Expr, obj types.Object, repl ast.Expr) ast.Expr {
	switch x := e.(type) {
	case *ast.Ident:
		if info.ObjectOf(x) == obj {
			return repl
		}
		return x
	case *ast.ParenExpr:
		if r := substIdent(info, x.X, obj, repl); r != nil {
			return &ast.ParenExpr{X: r}
		}
		return nil
	case *ast.UnaryExpr:
		if r := substIdent(info, x.X, obj, repl); r != nil {
			return &ast.UnaryExpr{Op: x.Op, X: r}
		}
		return nil
	case *ast.BinaryExpr:
		l, r := substIdent(info, x.X, obj, repl), substIdent(info, x.Y, obj, repl)
		if l == nil || r == nil {
			return nil
		}
		return &ast.BinaryExpr{X: l, Op: x.Op, Y: r}
	case *ast.CallExpr:
		// a predicate of the package applied to the value (isMakeUp(state)): the callee is kept,
		// the arguments are substituted
		if mentionsObj(info, x.Fun, obj) {
			return nil
		}
		args := make([]ast.Expr, len(x.Args))
		for i, a := range x.Args {
			if args[i] = substIdent(info, a, obj, repl); args[i] == nil {
				return nil
			}
		}
		return &ast.CallExpr{Fun: x.Fun, Lparen: x.Lparen, Args: args, Rparen: x.Rparen}
	}
	if mentionsObj(info, e, obj) {
		return nil
	}
	return e
}

// ccittTablesOf resolves the base of an index expression to the package-level
// code tables it can denote: a table variable itself, or a struct field that
// is only ever set, in composite literals of the package, to table variables.
func ccittTablesOf(c *core.Ctx, fn *core.Func, e ast.Expr) ([]*types.Var, bool) {
	info := fn.Info()
	pkg := fn.Pkg
	isPkgVar := func(x ast.Expr, inf *types.Info) *types.Var {
		id, ok := ast.Unparen(x).(*ast.Ident)
		if !ok {
			return nil
		}
		v, ok := inf.ObjectOf(id).(*types.Var)
		if !ok || v.Pkg() == nil || v.Parent() != v.Pkg().Scope() {
			return nil
		}
		return v
	}
	if v := isPkgVar(e, info); v != nil {
		return []*types.Var{v}, true
	}
	sel, ok := ast.Unparen(e).(*ast.SelectorExpr)
	if !ok {
		return nil, false
	}
	s := info.Selections[sel]
	if s == nil || s.Kind() != types.FieldVal {
		return nil, false
	}
	field := s.Obj().(*types.Var)
	var out []*types.Var
	all := true
	for _, f := range pkg.Syntax {
		if c.Prog.IsTestFile(f.Pos()) {
			continue
		}
		ast.Inspect(f, func(n ast.Node) bool {
			switch x := n.(type) {
			case *ast.AssignStmt:
				for _, l := range x.Lhs {
					if ls, ok := ast.Unparen(l).(*ast.SelectorExpr); ok {
						if sl := pkg.TypesInfo.Selections[ls]; sl != nil && sl.Obj() == field {
							all = false
						}
					}
				}
			case *ast.CompositeLit:
				st, ok := pkg.TypesInfo.TypeOf(x).Underlying().(*types.Struct)
				if !ok {
					return true
				}
				idx := -1
				for i := 0; i < st.NumFields(); i++ {
					if st.Field(i) == field {
						idx = i
					}
				}
				if idx < 0 {
					return true
				}
				var val ast.Expr
				for i, el := range x.Elts {
					if kv, isKV := el.(*ast.KeyValueExpr); isKV {
						if id, isID := kv.Key.(*ast.Ident); isID && id.Name == field.Name() {
							val = kv.Value
						}
					} else if i == idx {
						val = el
					}
				}
				if val == nil {
					return true // zero value: indexing it panics, no code is emitted
				}
				if v := isPkgVar(val, pkg.TypesInfo); v != nil {
					out = append(out, v)
				} else {
					all = false
				}
			}
			return true
		})
	}
	return out, all && len(out) > 0
}

// ruleCCITTEncoderTerminating: the encoder's side of "a run is make-up codes
// followed by exactly one terminating code".  In the function that encodes
// one run, no successful return may be reachable from the choice of a
// make-up code without passing the choice of a terminating code: a run whose
// length is a multiple of 64 still needs the terminating code for length 0
// (T.4 4.1.1), or every decoder loses synchronisation.  Terminating tables
// are the code tables with 64 entries (run lengths 0..63).
func ruleCCITTEncoderTerminating(c *core.Ctx, rule string) {
	c.Check(rule, ccittPk+".(*Writer).encode1DRun/terminating", "every run the encoder writes ends with a terminating code, also when the make-up codes already cover its length", func(o *core.Ob) {
		fn := c.Prog.Func(ccittPk, "(*Writer).encode1DRun")
		g := fn.Graph()
		info := fn.Info()
		var dTerm, dMk []*core.V
		unknown := 0
		for _, v := range g.Vs {
			if v.AST == nil {
				continue
			}
			var rhs []ast.Expr
			switch x := v.AST.(type) {
			case *ast.AssignStmt:
				rhs = x.Rhs
			case *ast.ValueSpec:
				rhs = x.Values
			case *ast.ReturnStmt:
				rhs = x.Results
			case *ast.ExprStmt:
				rhs = []ast.Expr{x.X}
			default:
				continue
			}
			term, mk := false, false
			for _, r := range rhs {
				ast.Inspect(r, func(n ast.Node) bool {
					ix, ok := n.(*ast.IndexExpr)
					if !ok {
						return true
					}
					t := info.TypeOf(ix)
					if t == nil || !strings.HasSuffix(core.TypeString(t), "encodeNode") {
						return true
					}
					tabs, ok := ccittTablesOf(c, fn, ix.X)
					if !ok {
						unknown++
						return true
					}
					for _, tv := range tabs {
						_, init, _ := c.Prog.Var(ccittPk, tv.Name())
						cl, isCL := ast.Unparen(init).(*ast.CompositeLit)
						if init == nil || !isCL {
							unknown++
							continue
						}
						if len(cl.Elts) == 64 {
							term = true
						} else {
							mk = true
						}
					}
					return true
				})
			}
			if mk {
				dMk = append(dMk, v)
				o.At(fn.Site(v.AST, "chooses a make-up code"))
			} else if term {
				dTerm = append(dTerm, v)
				o.At(fn.Site(v.AST, "chooses a terminating code"))
			}
		}
		if !o.Shape(unknown == 0 && len(dTerm) > 0 && len(dMk) > 0, "the code tables used by encode1DRun were not all resolved (%d unresolved, %d terminating, %d make-up choices)", unknown, len(dTerm), len(dMk)) {
			return
		}
		o.Fact("%d choices of a terminating code, %d of a make-up code", len(dTerm), len(dMk))
		errEdges := errNotNilEdges(g)
		for _, r := range g.Returns() {
			rs, ok := r.AST.(*ast.ReturnStmt)
			if !ok {
				continue
			}
			if len(rs.Results) == 1 {
				if _, isID := ast.Unparen(rs.Results[0]).(*ast.Ident); isID && !core.IsNil(info, rs.Results[0]) && g.EdgeDominates(r, errEdges...) {
					continue // return err under err != nil
				}
			}
			isTerm := false
			for _, t := range dTerm {
				if t == r {
					isTerm = true
				}
			}
			if isTerm {
				continue
			}
			for _, d := range dMk {
				if d == r || g.ReachFrom(d, false, core.AvoidVs(dTerm...))[r] {
					o.FailAt(fn.Site(rs, ""), "%s: this return can be reached from the make-up code chosen at %s without a terminating code being chosen in between", c.Prog.Pos(rs.Pos()), c.Prog.Pos(d.AST.Pos()))
					break
				}
			}
		}
	})
}

// ruleCCITTColourTables (C07-R13 / C06-R24): a run is coded with the make-up
// and the terminating code of its own colour (T.4 has separate tables for
// white and black).  The tables themselves are compared with the standard by
// the table rule, which also ties their names to their contents; this rule is
// about their use: tables that are selected together (fields of one literal
// of a table-of-tables, or assignments under the same condition in the run
// encoder) are of one colour.
func ruleCCITTColourTables(c *core.Ctx, rule string) {
	c.Check(rule, ccittPk+"/colour-tables", "the make-up and terminating tables selected together in the run encoder belong to the same colour", func(o *core.Ob) {
		pkg := c.Prog.Pkg(ccittPk)
		colourOf := func(name string) string {
			if !strings.HasSuffix(name, "EncodeTable") {
				return ""
			}
			switch {
			case strings.HasPrefix(name, "white"):
				return "white"
			case strings.HasPrefix(name, "black"):
				return "black"
			}
			return ""
		}
		n := 0
		// (a) literals that group tables
		for _, f := range pkg.Syntax {
			if c.Prog.IsTestFile(f.Pos()) {
				continue
			}
			ast.Inspect(f, func(m ast.Node) bool {
				cl, ok := m.(*ast.CompositeLit)
				if !ok {
					return true
				}
				if _, isStruct := pkg.TypesInfo.TypeOf(cl).Underlying().(*types.Struct); !isStruct {
					return true
				}
				colours := map[string][]string{}
				for _, el := range cl.Elts {
					val := el
					if kv, isKV := el.(*ast.KeyValueExpr); isKV {
						val = kv.Value
					}
					if id, isID := ast.Unparen(val).(*ast.Ident); isID {
						if col := colourOf(id.Name); col != "" {
							colours[col] = append(colours[col], id.Name)
						}
					}
				}
				if len(colours["white"])+len(colours["black"]) >= 2 {
					n++
					if len(colours["white"]) > 0 && len(colours["black"]) > 0 {
						o.Fail("%s: one entry of the table of code tables mixes colours: %v with %v", c.Prog.Pos(cl.Pos()), colours["white"], colours["black"])
					}
				}
				return true
			})
		}
		// (b) tables chosen under the same condition in the run encoder
		fn := c.Prog.FuncOpt(ccittPk, "(*Writer).encode1DRun")
		if fn != nil {
			g := fn.Graph()
			info := fn.Info()
			byCond := map[string]map[string][]string{}
			for _, v := range g.Vs {
				if v.AST == nil {
					continue
				}
				if _, isLoop := v.AST.(*ast.ForStmt); isLoop {
					continue
				}
				var used []string
				ast.Inspect(v.AST, func(m ast.Node) bool {
					if id, ok := m.(*ast.Ident); ok {
						if tv, ok := info.Uses[id].(*types.Var); ok && tv.Pkg() != nil && tv.Parent() == tv.Pkg().Scope() && colourOf(tv.Name()) != "" {
							used = append(used, tv.Name())
						}
					}
					return true
				})
				if len(used) == 0 {
					continue
				}
				for _, cnd := range dominatingConds(g, v) {
					if !strings.Contains(cnd, "whiteBit") && !strings.Contains(strings.ToLower(cnd), "white") && !strings.Contains(strings.ToLower(cnd), "black") {
						continue
					}
					if byCond[cnd] == nil {
						byCond[cnd] = map[string][]string{}
					}
					for _, u := range used {
						byCond[cnd][colourOf(u)] = append(byCond[cnd][colourOf(u)], u)
					}
				}
			}
			for cnd, cols := range byCond {
				n++
				if len(cols["white"]) > 0 && len(cols["black"]) > 0 {
					o.Fail("%s: under the condition %s the run encoder uses %v together with %v", fn.Key, cnd, cols["white"], cols["black"])
				}
			}
		}
		o.Count(n)
		o.Shape(n > 0, "no place where colour-specific code tables are selected together was found")
	})
}
