package core

import (
	"fmt"
	"go/ast"
	"go/constant"
	"go/token"
	"go/types"
	"os"
	"reflect"
	"strings"
)

// This file normalises a function for analysis by inlining the calls of small
// helper functions of the same package into a copy of its declaration.  Rules
// that decide a property of an entry point (a path condition, an order of
// effects, the presence of a guard) would otherwise depend on where the
// maintainers happened to draw function boundaries: extracting a block into a
// helper, or inlining one, changes nothing about the behaviour.
//
// The copy is a syntax tree that is never type-checked again: every copied
// node gets the type information of the node it was copied from, parameters
// are replaced by (copies of) the argument expressions when these are simple,
// and return statements of the inlined body become an assignment to the
// caller's left-hand sides followed by a goto to a label behind the inlined
// block, which go/cfg understands.  Positions are those of the original
// nodes, so reports point into the helper.

// Inlined returns a copy of f in which eligible calls are inlined (see
// eligible); the result is cached.  Functions that contain no eligible call
// are returned as they are.  keep lists callees (suffixes of their keys, e.g.
// ".findXRef") that stay calls: the functions a rule treats as primitives.
func (f *Func) Inlined(keep ...string) *Func {
	key := strings.Join(keep, "|")
	f.inlMu.Lock()
	defer f.inlMu.Unlock()
	if r, ok := f.inlinedBy[key]; ok {
		return r
	}
	if f.inlinedBy == nil {
		f.inlinedBy = map[string]*Func{}
	}
	in := &inliner{prog: f.Prog, info: f.Pkg.TypesInfo, root: f, keep: keep}
	body := in.block(f.Decl.Body, []*types.Func{f.Obj}, 0)
	propagated := false
	if os.Getenv("PDFVERIF_FIELDPROP") != "" {
		// experimental (off): see FieldAliases for what the rules use instead
		body, propagated = propagateFieldReads(f.Pkg.TypesInfo, f, body)
	}
	if in.count == 0 && !propagated {
		f.inlinedBy[key] = f
		return f
	}
	if in.count > 0 && os.Getenv("PDFVERIF_NOSROA") == "" {
		body = sroa(f.Pkg.TypesInfo, f, body)
	}
	decl := *f.Decl
	decl.Body = body
	r := &Func{Prog: f.Prog, Pkg: f.Pkg, Decl: &decl, Obj: f.Obj, Key: f.Key, InlinedCalls: in.count}
	r.inlinedBy = map[string]*Func{key: r}
	f.inlinedBy[key] = r
	return r
}

type inliner struct {
	prog  *Program
	info  *types.Info
	root  *Func
	count int
	label int
	keep  []string
}

const (
	inlineMaxDepth = 2
	inlineMaxNodes = 300
	inlineMaxCalls = 40
)

// eligible decides whether a call can be inlined and returns the callee.
func (in *inliner) eligible(call *ast.CallExpr, stack []*types.Func, depth int) *Func {
	if depth >= inlineMaxDepth || in.count >= inlineMaxCalls || call.Ellipsis.IsValid() {
		return nil
	}
	obj := Callee(in.info, call)
	if obj == nil || obj.Pkg() == nil || obj.Pkg() != in.root.Obj.Pkg() {
		return nil
	}
	if obj.Exported() {
		// exported functions are API, not artefacts of where a body was split
		return nil
	}
	for _, s := range stack {
		if s == obj {
			return nil
		}
	}
	callee := in.prog.FuncOf(obj)
	if callee == nil || callee.Decl.Body == nil {
		return nil
	}
	for _, k := range in.keep {
		if strings.HasSuffix(callee.Key, k) {
			return nil
		}
	}
	sig := obj.Type().(*types.Signature)
	if sig.Variadic() || sig.TypeParams() != nil || sig.RecvTypeParams() != nil {
		return nil
	}
	// an interface method value or a method expression is not a static call
	if sel, ok := ast.Unparen(call.Fun).(*ast.SelectorExpr); ok {
		if s := in.info.Selections[sel]; s != nil && s.Kind() != types.MethodVal {
			return nil
		}
	}
	if isTypePredicate(callee) {
		// func p(x T) bool { switch x.(type) { ... return <constant> } }: a
		// predicate on the dynamic type stays a call; rules evaluate it per
		// type (a copy of its switch would not be correlated with the caller's
		// own type switch on the same value)
		return nil
	}
	nodes := 0
	ok := true
	ast.Inspect(callee.Decl.Body, func(n ast.Node) bool {
		nodes++
		switch x := n.(type) {
		case *ast.DeferStmt:
			if !leadingDefers(callee.Decl.Body)[x] {
				ok = false
			}
		case *ast.GoStmt, *ast.SelectStmt, *ast.LabeledStmt:
			ok = false
		case *ast.BranchStmt:
			if x.Tok == token.GOTO || x.Label != nil {
				ok = false
			}
		case *ast.CallExpr:
			if id, isID := ast.Unparen(x.Fun).(*ast.Ident); isID {
				if b, isB := in.info.Uses[id].(*types.Builtin); isB && b.Name() == "recover" {
					ok = false
				}
			}
		}
		return ok
	})
	if !ok {
		return nil
	}
	if nodes > inlineMaxNodes {
		// a large helper is still the body of its caller when nothing else calls it
		if nodes > 10*inlineMaxNodes || in.callSites(callee) != 1 {
			return nil
		}
	}
	if callee.Decl.Type.Params != nil {
		n := 0
		for _, f := range callee.Decl.Type.Params.List {
			if len(f.Names) == 0 {
				n++ // unnamed parameter: nothing to bind
			}
			n += len(f.Names)
		}
		if n != len(call.Args) {
			return nil
		}
	}
	return callee
}

// isTypePredicate: the body is one type switch over a parameter (plus an
// optional final return) in which every clause only returns boolean constants.
func isTypePredicate(f *Func) bool {
	body := f.Decl.Body.List
	if len(body) == 0 || len(body) > 2 {
		return false
	}
	ts, ok := body[0].(*ast.TypeSwitchStmt)
	if !ok {
		return false
	}
	sig := f.Obj.Type().(*types.Signature)
	if sig.Results().Len() != 1 || sig.Params().Len() != 1 {
		return false
	}
	if b, ok := sig.Results().At(0).Type().Underlying().(*types.Basic); !ok || b.Kind() != types.Bool {
		return false
	}
	constRet := func(stmts []ast.Stmt) bool {
		if len(stmts) != 1 {
			return false
		}
		r, ok := stmts[0].(*ast.ReturnStmt)
		if !ok || len(r.Results) != 1 {
			return false
		}
		tv, ok := f.Info().Types[r.Results[0]]
		return ok && tv.Value != nil
	}
	for _, cl := range ts.Body.List {
		if !constRet(cl.(*ast.CaseClause).Body) {
			return false
		}
	}
	if len(body) == 2 && !constRet(body[1:]) {
		return false
	}
	return true
}

// leadingDefers returns the defer statements of a body that can be replayed
// as plain calls at its end: top-level statements that defer a plain call
// (not a function literal) and that come before the first statement
// containing a return, so that they are registered on every path.
func leadingDefers(body *ast.BlockStmt) map[*ast.DeferStmt]bool {
	out := map[*ast.DeferStmt]bool{}
	for _, st := range body.List {
		if d, ok := st.(*ast.DeferStmt); ok {
			if _, isLit := d.Call.Fun.(*ast.FuncLit); !isLit {
				out[d] = true
				continue
			}
			return out
		}
		hasRet := false
		ast.Inspect(st, func(n ast.Node) bool {
			switch n.(type) {
			case *ast.FuncLit:
				return false
			case *ast.ReturnStmt:
				hasRet = true
			}
			return !hasRet
		})
		if hasRet {
			break
		}
	}
	return out
}

func hasDefers(body *ast.BlockStmt) bool { return len(leadingDefers(body)) > 0 }

// block returns a copy of b with eligible call statements inlined.
func (in *inliner) block(b *ast.BlockStmt, stack []*types.Func, depth int) *ast.BlockStmt {
	if b == nil {
		return nil
	}
	out := &ast.BlockStmt{Lbrace: b.Lbrace, Rbrace: b.Rbrace}
	out.List = in.stmts(b.List, stack, depth)
	return out
}

func (in *inliner) stmts(list []ast.Stmt, stack []*types.Func, depth int) []ast.Stmt {
	var out []ast.Stmt
	for _, s := range list {
		out = append(out, in.stmt(s, stack, depth)...)
	}
	return out
}

// topCall returns the call when the statement is `lhs... := f(...)`,
// `f(...)` or `return f(...)`.
func topCall(s ast.Stmt) *ast.CallExpr {
	switch x := s.(type) {
	case *ast.AssignStmt:
		if len(x.Rhs) == 1 && (x.Tok == token.ASSIGN || x.Tok == token.DEFINE) {
			if c, ok := ast.Unparen(x.Rhs[0]).(*ast.CallExpr); ok {
				return c
			}
		}
	case *ast.ExprStmt:
		if c, ok := ast.Unparen(x.X).(*ast.CallExpr); ok {
			return c
		}
	case *ast.ReturnStmt:
		if len(x.Results) == 1 {
			if c, ok := ast.Unparen(x.Results[0]).(*ast.CallExpr); ok {
				return c
			}
		}
	}
	return nil
}

// hoistable returns the eligible single-result calls that occur as direct
// operands of the expression list (f(x), !f(x)), in evaluation order.
func (in *inliner) hoistable(list []ast.Expr, stack []*types.Func, depth int) []*ast.CallExpr {
	var out []*ast.CallExpr
	for _, e := range list {
		x := ast.Unparen(e)
		if u, ok := x.(*ast.UnaryExpr); ok && u.Op == token.NOT {
			x = ast.Unparen(u.X)
		}
		call, ok := x.(*ast.CallExpr)
		if !ok {
			continue
		}
		callee := in.eligible(call, stack, depth)
		if callee == nil {
			continue
		}
		if sig := callee.Obj.Type().(*types.Signature); sig.Results().Len() != 1 {
			continue
		}
		out = append(out, call)
	}
	return out
}

// hoist replaces the given calls inside the expressions by fresh temporaries
// and returns the statements `tmp := call` that go in front.
func (in *inliner) hoist(list []ast.Expr, calls []*ast.CallExpr) ([]ast.Expr, []ast.Stmt) {
	var pre []ast.Stmt
	repl := map[*ast.CallExpr]*ast.Ident{}
	for _, call := range calls {
		in.label++
		name := fmt.Sprintf("inl%d_res", in.label)
		t := in.info.TypeOf(call)
		obj := types.NewVar(call.Pos(), in.root.Obj.Pkg(), name, t)
		def := &ast.Ident{NamePos: call.Pos(), Name: name}
		in.info.Defs[def] = obj
		use := &ast.Ident{NamePos: call.Pos(), Name: name}
		in.info.Uses[use] = obj
		in.info.Types[use] = types.TypeAndValue{Type: t}
		repl[call] = use
		pre = append(pre, &ast.AssignStmt{Lhs: []ast.Expr{def}, TokPos: call.Pos(), Tok: token.DEFINE, Rhs: []ast.Expr{call}})
	}
	out := make([]ast.Expr, len(list))
	for i, e := range list {
		x := ast.Unparen(e)
		if call, ok := x.(*ast.CallExpr); ok && repl[call] != nil {
			out[i] = repl[call]
			continue
		}
		if u, ok := x.(*ast.UnaryExpr); ok && u.Op == token.NOT {
			if call, ok := ast.Unparen(u.X).(*ast.CallExpr); ok && repl[call] != nil {
				n := &ast.UnaryExpr{OpPos: u.OpPos, Op: token.NOT, X: repl[call]}
				if tv, ok := in.info.Types[u]; ok {
					in.info.Types[n] = tv
				}
				out[i] = n
				continue
			}
		}
		out[i] = e
	}
	return out, pre
}

// stmt returns the statements that replace s.
func (in *inliner) stmt(s ast.Stmt, stack []*types.Func, depth int) []ast.Stmt {
	// calls that are operands of a return or of an if condition are taken out first
	switch x := s.(type) {
	case *ast.ReturnStmt:
		if topCall(s) == nil || len(x.Results) > 1 {
			if calls := in.hoistable(x.Results, stack, depth); len(calls) > 0 {
				res, pre := in.hoist(x.Results, calls)
				out := in.stmts(pre, stack, depth)
				return append(out, &ast.ReturnStmt{Return: x.Return, Results: res})
			}
		}
	case *ast.IfStmt:
		if x.Init == nil {
			if calls := in.hoistable([]ast.Expr{x.Cond}, stack, depth); len(calls) > 0 {
				res, pre := in.hoist([]ast.Expr{x.Cond}, calls)
				c := *x
				c.Cond = res[0]
				in.copyInfo(x, &c)
				out := in.stmts(pre, stack, depth)
				return []ast.Stmt{&ast.BlockStmt{Lbrace: x.Pos(), Rbrace: x.End(), List: append(out, in.stmt(&c, stack, depth)...)}}
			}
		}
	}
	if call := topCall(s); call != nil {
		if callee := in.eligible(call, stack, depth); callee != nil {
			if rs, isRet := s.(*ast.ReturnStmt); isRet && hasDefers(callee.Decl.Body) {
				// the deferred calls run between the evaluation of the
				// results and the caller's return: take the results into
				// temporaries first
				sig := callee.Obj.Type().(*types.Signature)
				var lhs, uses []ast.Expr
				for i := 0; i < sig.Results().Len(); i++ {
					in.label++
					name := fmt.Sprintf("inl%d_res", in.label)
					obj := types.NewVar(call.Pos(), in.root.Obj.Pkg(), name, sig.Results().At(i).Type())
					def := &ast.Ident{NamePos: call.Pos(), Name: name}
					in.info.Defs[def] = obj
					use := &ast.Ident{NamePos: call.Pos(), Name: name}
					in.info.Uses[use] = obj
					in.info.Types[use] = types.TypeAndValue{Type: obj.Type()}
					lhs = append(lhs, def)
					uses = append(uses, use)
				}
				if len(lhs) == 0 {
					return []ast.Stmt{s}
				}
				as := &ast.AssignStmt{Lhs: lhs, TokPos: call.Pos(), Tok: token.DEFINE, Rhs: []ast.Expr{call}}
				out := in.expand(as, call, callee, stack, depth)
				return append(out, &ast.ReturnStmt{Return: rs.Return, Results: uses})
			}
			return in.expand(s, call, callee, stack, depth)
		}
		return []ast.Stmt{s}
	}
	switch x := s.(type) {
	case *ast.BlockStmt:
		return []ast.Stmt{in.block(x, stack, depth)}
	case *ast.IfStmt:
		c := *x
		var pre []ast.Stmt
		if x.Init != nil {
			if call := topCall(x.Init); call != nil {
				if callee := in.eligible(call, stack, depth); callee != nil {
					pre = in.expand(x.Init, call, callee, stack, depth)
					c.Init = nil
				}
			}
		}
		c.Body = in.block(x.Body, stack, depth)
		if x.Else != nil {
			e := in.stmt(x.Else, stack, depth)
			if len(e) == 1 {
				c.Else = e[0]
			} else {
				c.Else = &ast.BlockStmt{List: e}
			}
		}
		in.copyInfo(x, &c)
		if pre != nil {
			return []ast.Stmt{&ast.BlockStmt{Lbrace: x.Pos(), Rbrace: x.End(), List: append(pre, &c)}}
		}
		return []ast.Stmt{&c}
	case *ast.ForStmt:
		c := *x
		c.Body = in.block(x.Body, stack, depth)
		return []ast.Stmt{&c}
	case *ast.RangeStmt:
		c := *x
		c.Body = in.block(x.Body, stack, depth)
		return []ast.Stmt{&c}
	case *ast.SwitchStmt:
		c := *x
		c.Body = in.caseBlock(x.Body, stack, depth)
		return []ast.Stmt{&c}
	case *ast.TypeSwitchStmt:
		c := *x
		c.Body = in.caseBlock(x.Body, stack, depth)
		return []ast.Stmt{&c}
	case *ast.LabeledStmt:
		c := *x
		r := in.stmt(x.Stmt, stack, depth)
		if len(r) == 1 {
			c.Stmt = r[0]
		} else {
			c.Stmt = &ast.BlockStmt{List: r}
		}
		return []ast.Stmt{&c}
	}
	return []ast.Stmt{s}
}

func (in *inliner) caseBlock(b *ast.BlockStmt, stack []*types.Func, depth int) *ast.BlockStmt {
	out := &ast.BlockStmt{Lbrace: b.Lbrace, Rbrace: b.Rbrace}
	for _, s := range b.List {
		cc, ok := s.(*ast.CaseClause)
		if !ok {
			out.List = append(out.List, s)
			continue
		}
		// case clauses keep their identity: graphs and rules refer to them
		// (switch membership, implicit objects of type switches)
		n := *cc
		n.Body = in.stmts(cc.Body, stack, depth)
		in.copyInfo(cc, &n)
		out.List = append(out.List, &n)
	}
	return out
}

// copyInfo gives the shallow copy n the per-node type information of o.
func (in *inliner) copyInfo(o, n ast.Node) {
	if obj, ok := in.info.Implicits[o]; ok {
		in.info.Implicits[n] = obj
	}
	if sc, ok := in.info.Scopes[o]; ok {
		in.info.Scopes[n] = sc
	}
}

// simpleArg: the argument can replace the parameter everywhere.
func (in *inliner) simpleArg(e ast.Expr) bool {
	switch x := ast.Unparen(e).(type) {
	case *ast.Ident:
		return true
	case *ast.BasicLit:
		return true
	case *ast.SelectorExpr:
		return in.simpleArg(x.X)
	}
	if tv, ok := in.info.Types[e]; ok && tv.Value != nil {
		return true
	}
	return false
}

// expand replaces the statement s (whose top-level call is call) by the body
// of callee.
func (in *inliner) expand(s ast.Stmt, call *ast.CallExpr, callee *Func, stack []*types.Func, depth int) []ast.Stmt {
	in.count++
	in.label++
	label := fmt.Sprintf("inl%d_%s", in.label, callee.Obj.Name())
	info := in.info

	// parameters (and the receiver)
	type binding struct {
		obj types.Object
		id  *ast.Ident
		arg ast.Expr
	}
	var binds []binding
	if callee.Decl.Recv != nil && len(callee.Decl.Recv.List) == 1 && len(callee.Decl.Recv.List[0].Names) == 1 {
		if sel, ok := ast.Unparen(call.Fun).(*ast.SelectorExpr); ok {
			id := callee.Decl.Recv.List[0].Names[0]
			binds = append(binds, binding{info.ObjectOf(id), id, sel.X})
		}
	}
	if callee.Decl.Type.Params != nil {
		i := 0
		for _, f := range callee.Decl.Type.Params.List {
			if len(f.Names) == 0 {
				i++
			}
			for _, id := range f.Names {
				if i < len(call.Args) && id.Name != "_" {
					binds = append(binds, binding{info.ObjectOf(id), id, call.Args[i]})
				}
				i++
			}
		}
	}
	// parameters that the callee assigns or whose address it takes keep their identity
	modified := map[types.Object]bool{}
	ast.Inspect(callee.Decl.Body, func(n ast.Node) bool {
		mark := func(e ast.Expr) {
			if id, ok := ast.Unparen(e).(*ast.Ident); ok {
				modified[info.ObjectOf(id)] = true
			}
		}
		switch x := n.(type) {
		case *ast.AssignStmt:
			for _, l := range x.Lhs {
				mark(l)
			}
		case *ast.IncDecStmt:
			mark(x.X)
		case *ast.UnaryExpr:
			if x.Op == token.AND {
				mark(x.X)
			}
		case *ast.RangeStmt:
			if x.Tok == token.ASSIGN {
				if x.Key != nil {
					mark(x.Key)
				}
				if x.Value != nil {
					mark(x.Value)
				}
			}
		}
		return true
	})
	// every copy gets its own variables: two copies of one helper in one
	// function must not share the objects of the helper's locals
	freshObjs := map[types.Object]types.Object{}
	fresh := func(obj types.Object) types.Object {
		v, ok := obj.(*types.Var)
		if !ok || v.IsField() || v.Pkg() == nil || v.Pos() < callee.Decl.Pos() || v.Pos() > callee.Decl.End() {
			return obj
		}
		if v.Parent() != nil && v.Parent() == v.Pkg().Scope() {
			return obj
		}
		if n, ok := freshObjs[obj]; ok {
			return n
		}
		n := types.NewVar(v.Pos(), v.Pkg(), VarName(v), v.Type())
		freshObjs[obj] = n
		return n
	}
	if os.Getenv("PDFVERIF_NOFRESH") != "" {
		fresh = func(obj types.Object) types.Object { return obj }
	}
	subst := map[types.Object]ast.Expr{}
	var pre []ast.Stmt
	for _, b := range binds {
		if b.obj == nil {
			continue
		}
		if in.simpleArg(b.arg) && !modified[b.obj] {
			subst[b.obj] = b.arg
			continue
		}
		// param := arg
		lhs := &ast.Ident{NamePos: b.id.NamePos, Name: b.id.Name}
		info.Defs[lhs] = fresh(b.obj)
		pre = append(pre, &ast.AssignStmt{Lhs: []ast.Expr{lhs}, TokPos: b.arg.Pos(), Tok: token.DEFINE, Rhs: []ast.Expr{b.arg}})
	}

	// the caller's left-hand sides
	var lhs []ast.Expr
	isReturn := false
	switch x := s.(type) {
	case *ast.AssignStmt:
		lhs = x.Lhs
	case *ast.ReturnStmt:
		isReturn = true
	}
	// named results of the callee, for bare returns
	var named []*ast.Ident
	if callee.Decl.Type.Results != nil {
		for _, f := range callee.Decl.Type.Results.List {
			named = append(named, f.Names...)
		}
	}

	cl := &cloner{info: info, subst: subst, fresh: fresh}
	body := cl.node(callee.Decl.Body).(*ast.BlockStmt)
	// leading defers of plain calls are replayed behind the body, in reverse order
	var deferred []ast.Stmt
	if ld := leadingDefers(callee.Decl.Body); len(ld) > 0 {
		var kept []ast.Stmt
		for i, st := range body.List {
			if i < len(callee.Decl.Body.List) {
				if d, ok := callee.Decl.Body.List[i].(*ast.DeferStmt); ok && ld[d] {
					dc := st.(*ast.DeferStmt)
					deferred = append([]ast.Stmt{&ast.ExprStmt{X: dc.Call}}, deferred...)
					continue
				}
			}
			kept = append(kept, st)
		}
		body.List = kept
	}
	// declarations of named results, so that their zero values are visible
	for _, id := range named {
		if id.Name == "_" {
			continue
		}
		d := &ast.Ident{NamePos: id.NamePos, Name: id.Name}
		info.Defs[d] = fresh(info.ObjectOf(id))
		var typ ast.Expr
		for _, f := range callee.Decl.Type.Results.List {
			for _, n := range f.Names {
				if n == id {
					typ = f.Type
				}
			}
		}
		pre = append(pre, &ast.DeclStmt{Decl: &ast.GenDecl{Tok: token.VAR, TokPos: id.NamePos, Specs: []ast.Spec{&ast.ValueSpec{Names: []*ast.Ident{d}, Type: typ}}}})
	}
	// nested inlining inside the copy
	body = in.block(body, append(append([]*types.Func{}, stack...), callee.Obj), depth+1)

	usedLabel := false
	var rewrite func(list []ast.Stmt) []ast.Stmt
	rewriteStmt := func(st ast.Stmt) ast.Stmt { return st }
	var walk func(n ast.Node)
	walk = func(n ast.Node) {
		// rewrite return statements in statement lists below n (not inside function literals)
		switch x := n.(type) {
		case *ast.BlockStmt:
			x.List = rewrite(x.List)
		case *ast.CaseClause:
			x.Body = rewrite(x.Body)
		case *ast.CommClause:
			x.Body = rewrite(x.Body)
		case *ast.IfStmt:
			walk(x.Body)
			if x.Else != nil {
				if r, ok := x.Else.(*ast.ReturnStmt); ok {
					x.Else = &ast.BlockStmt{List: rewrite([]ast.Stmt{r})}
				} else {
					walk(x.Else)
				}
			}
		case *ast.ForStmt:
			walk(x.Body)
		case *ast.RangeStmt:
			walk(x.Body)
		case *ast.SwitchStmt:
			walk(x.Body)
		case *ast.TypeSwitchStmt:
			walk(x.Body)
		case *ast.LabeledStmt:
			walk(x.Stmt)
		}
	}
	_ = rewriteStmt
	rewrite = func(list []ast.Stmt) []ast.Stmt {
		var out []ast.Stmt
		for _, st := range list {
			r, ok := st.(*ast.ReturnStmt)
			if !ok {
				walk(st)
				out = append(out, st)
				continue
			}
			results := r.Results
			if len(results) == 0 {
				for _, id := range named {
					u := &ast.Ident{NamePos: r.Return, Name: id.Name}
					info.Uses[u] = fresh(info.ObjectOf(id))
					if tv, ok := info.Types[id]; ok {
						info.Types[u] = tv
					} else if o := info.ObjectOf(id); o != nil {
						info.Types[u] = types.TypeAndValue{Type: o.Type()}
					}
					results = append(results, u)
				}
			}
			if isReturn {
				// the caller returns what the callee returns
				out = append(out, &ast.ReturnStmt{Return: r.Return, Results: results})
				continue
			}
			if len(lhs) > 0 && len(lhs) == len(results) {
				var l []ast.Expr
				for _, e := range lhs {
					l = append(l, (&cloner{info: info}).node(e).(ast.Expr))
				}
				out = append(out, &ast.AssignStmt{Lhs: l, TokPos: r.Return, Tok: token.ASSIGN, Rhs: results})
			} else if len(lhs) > 0 && len(results) == 1 {
				// return g(...) with several results
				var l []ast.Expr
				for _, e := range lhs {
					l = append(l, (&cloner{info: info}).node(e).(ast.Expr))
				}
				out = append(out, &ast.AssignStmt{Lhs: l, TokPos: r.Return, Tok: token.ASSIGN, Rhs: results})
			} else {
				for _, e := range results {
					// keep the evaluation of the results (calls)
					if _, isCall := ast.Unparen(e).(*ast.CallExpr); isCall {
						out = append(out, &ast.ExprStmt{X: e})
					}
				}
			}
			usedLabel = true
			lb := &ast.Ident{NamePos: r.Return, Name: label}
			out = append(out, &ast.BranchStmt{TokPos: r.Return, Tok: token.GOTO, Label: lb})
		}
		return out
	}
	body.List = rewrite(body.List)

	var out []ast.Stmt
	// a := declares the caller's variables: keep a declaration in front so
	// that definitions are still found
	if as, ok := s.(*ast.AssignStmt); ok && as.Tok == token.DEFINE {
		for _, e := range as.Lhs {
			id, ok := e.(*ast.Ident)
			if !ok || id.Name == "_" {
				continue
			}
			if obj, isDef := info.Defs[id]; isDef && obj != nil {
				out = append(out, &ast.DeclStmt{Decl: &ast.GenDecl{Tok: token.VAR, TokPos: id.NamePos, Specs: []ast.Spec{&ast.ValueSpec{Names: []*ast.Ident{id}}}}})
			}
		}
	}
	blk := &ast.BlockStmt{Lbrace: call.Pos(), Rbrace: call.End(), List: append(pre, body.List...)}
	out = append(out, blk)
	if usedLabel && !isReturn {
		lb := &ast.Ident{NamePos: call.End(), Name: label}
		out = append(out, &ast.LabeledStmt{Label: lb, Colon: call.End(), Stmt: &ast.EmptyStmt{Semicolon: call.End(), Implicit: true}})
	}
	out = append(out, deferred...)
	return out
}

// cloner deep-copies syntax, carrying the type information over and
// replacing uses of substituted objects.
type cloner struct {
	info  *types.Info
	subst map[types.Object]ast.Expr
	// rewrite, when set, may replace a node before it is copied (the
	// replacement is used as it is)
	rewrite func(n ast.Node) ast.Node
	// fresh, when set, maps an object of the copied code to the object the
	// copy uses in its place
	fresh func(types.Object) types.Object
}

var (
	nodeType  = reflect.TypeOf((*ast.Node)(nil)).Elem()
	objPtr    = reflect.TypeOf((*ast.Object)(nil))
	scopePtr  = reflect.TypeOf((*ast.Scope)(nil))
	identType = reflect.TypeOf((*ast.Ident)(nil))
)

func (c *cloner) node(n ast.Node) ast.Node {
	if n == nil || reflect.ValueOf(n).IsNil() {
		return n
	}
	if c.rewrite != nil {
		if r := c.rewrite(n); r != nil {
			return r
		}
	}
	if id, ok := n.(*ast.Ident); ok && c.subst != nil {
		if obj := c.info.Uses[id]; obj != nil {
			if r, ok := c.subst[obj]; ok {
				cp := (&cloner{info: c.info}).node(r).(ast.Expr)
				if !primaryExpr(cp) {
					{
						cp = &ast.ParenExpr{Lparen: id.Pos(), X: cp, Rparen: id.End()}
						if tv, ok := c.info.Types[r]; ok {
							c.info.Types[cp] = tv
						}
					}
				}
				return cp
			}
		}
	}
	if fl, ok := n.(*ast.FuncLit); ok {
		// function literals are copied as a whole (their bodies may use parameters)
		_ = fl
	}
	v := reflect.ValueOf(n)
	cp := c.value(v)
	out := cp.Interface().(ast.Node)
	c.copyInfo(n, out)
	return out
}

func (c *cloner) copyInfo(o, n ast.Node) {
	info := c.info
	if oe, ok := o.(ast.Expr); ok {
		if tv, ok := info.Types[oe]; ok {
			info.Types[n.(ast.Expr)] = tv
		}
	}
	switch x := o.(type) {
	case *ast.Ident:
		ni := n.(*ast.Ident)
		if obj, ok := info.Defs[x]; ok {
			if c.fresh != nil && obj != nil {
				obj = c.fresh(obj)
			}
			info.Defs[ni] = obj
		}
		if obj, ok := info.Uses[x]; ok {
			if c.fresh != nil && obj != nil {
				obj = c.fresh(obj)
			}
			info.Uses[ni] = obj
		}
		if inst, ok := info.Instances[x]; ok {
			info.Instances[ni] = inst
		}
	case *ast.SelectorExpr:
		if s, ok := info.Selections[x]; ok {
			info.Selections[n.(*ast.SelectorExpr)] = s
		}
	}
	if obj, ok := info.Implicits[o]; ok {
		if c.fresh != nil && obj != nil {
			obj = c.fresh(obj)
		}
		info.Implicits[n] = obj
	}
	if sc, ok := info.Scopes[o]; ok {
		info.Scopes[n] = sc
	}
}

// value copies a reflect value that is part of a syntax tree.
func (c *cloner) value(v reflect.Value) reflect.Value {
	switch v.Kind() {
	case reflect.Ptr:
		if v.IsNil() || v.Type() == objPtr || v.Type() == scopePtr {
			return v
		}
		if v.Type().Implements(nodeType) {
			n := v.Interface().(ast.Node)
			if id, ok := n.(*ast.Ident); ok && c.subst != nil {
				if obj := c.info.Uses[id]; obj != nil {
					if _, sub := c.subst[obj]; sub {
						// handled by the interface case; an *ast.Ident field
						// (selector names, labels, field names) is never a
						// use of a parameter
						_ = sub
					}
				}
			}
			nv := reflect.New(v.Type().Elem())
			ev := v.Elem()
			for i := 0; i < ev.NumField(); i++ {
				f := ev.Field(i)
				if !nv.Elem().Field(i).CanSet() {
					continue
				}
				nv.Elem().Field(i).Set(c.value(f))
			}
			c.copyInfo(n, nv.Interface().(ast.Node))
			return nv
		}
		return v
	case reflect.Interface:
		if v.IsNil() {
			return v
		}
		if n, ok := v.Interface().(ast.Node); ok {
			cp := c.node(n)
			out := reflect.New(v.Type()).Elem()
			out.Set(reflect.ValueOf(cp))
			return out
		}
		return v
	case reflect.Slice:
		if v.IsNil() {
			return v
		}
		out := reflect.MakeSlice(v.Type(), v.Len(), v.Len())
		for i := 0; i < v.Len(); i++ {
			out.Index(i).Set(c.value(v.Index(i)))
		}
		return out
	}
	return v
}

// callSites counts the references to a function in its package (calls and
// function values), cached per program.
func (in *inliner) callSites(callee *Func) int {
	p := in.prog
	p.mu.Lock()
	if p.refCount == nil {
		p.refCount = map[*types.Func]int{}
		p.refDone = map[string]bool{}
	}
	done := p.refDone[callee.Pkg.PkgPath]
	p.mu.Unlock()
	if !done {
		counts := map[*types.Func]int{}
		for _, f := range callee.Pkg.Syntax {
			ast.Inspect(f, func(n ast.Node) bool {
				if id, ok := n.(*ast.Ident); ok {
					if tf, ok := callee.Pkg.TypesInfo.Uses[id].(*types.Func); ok {
						counts[tf.Origin()]++
					}
				}
				return true
			})
		}
		p.mu.Lock()
		for k, v := range counts {
			p.refCount[k] = v
		}
		p.refDone[callee.Pkg.PkgPath] = true
		p.mu.Unlock()
	}
	p.mu.Lock()
	defer p.mu.Unlock()
	return p.refCount[callee.Obj]
}

// ---------------------------------------------------------------------------
// Scalar replacement of small struct locals.
//
// A helper that returns its decisions in a small struct (claim :=
// x.claimExclusive(key); switch { case claim.cached: ... case claim.own ==
// nil: ... }) leaves, after inlining, a struct local that is only assigned
// composite literals and only read field by field.  Such a local is replaced
// by one local per field, so that the engines that follow constants, nil
// and copies through locals (flag-aware reachability, GuardedBy, valueCases)
// see the fields as what they are.

type sroaVar struct {
	obj    *types.Var
	st     *types.Struct
	fields []*types.Var // replacement locals, by field index
}

func sroa(info *types.Info, root *Func, body *ast.BlockStmt) *ast.BlockStmt {
	// candidates: local struct variables
	cands := map[types.Object]*sroaVar{}
	bad := map[types.Object]bool{}
	isCand := func(obj types.Object) *types.Struct {
		v, ok := obj.(*types.Var)
		if !ok || v.IsField() || v.Pkg() == nil || v.Parent() == v.Pkg().Scope() {
			return nil
		}
		if _, isNamedPtr := v.Type().(*types.Pointer); isNamedPtr {
			return nil
		}
		st, ok := v.Type().Underlying().(*types.Struct)
		if !ok || st.NumFields() == 0 || st.NumFields() > 8 {
			return nil
		}
		for i := 0; i < st.NumFields(); i++ {
			if st.Field(i).Embedded() || sroaZero(info, st.Field(i).Type(), token.NoPos) == nil {
				return nil
			}
		}
		return st
	}
	// parameters and results are never replaced
	if root.Decl.Type.Params != nil {
		for _, f := range root.Decl.Type.Params.List {
			for _, n := range f.Names {
				bad[info.ObjectOf(n)] = true
			}
		}
	}
	if root.Decl.Type.Results != nil {
		for _, f := range root.Decl.Type.Results.List {
			for _, n := range f.Names {
				bad[info.ObjectOf(n)] = true
			}
		}
	}
	if root.Decl.Recv != nil {
		for _, f := range root.Decl.Recv.List {
			for _, n := range f.Names {
				bad[info.ObjectOf(n)] = true
			}
		}
	}
	okUse := map[*ast.Ident]bool{}
	litOf := func(obj types.Object, e ast.Expr) bool {
		cl, ok := ast.Unparen(e).(*ast.CompositeLit)
		if !ok {
			return false
		}
		t := info.TypeOf(cl)
		return t != nil && types.Identical(t, obj.Type())
	}
	ast.Inspect(body, func(n ast.Node) bool {
		switch x := n.(type) {
		case *ast.FuncLit:
			// a struct local touched inside a closure is left alone
			ast.Inspect(x, func(m ast.Node) bool {
				if id, ok := m.(*ast.Ident); ok {
					if obj := info.ObjectOf(id); obj != nil {
						bad[obj] = true
					}
				}
				return true
			})
			return false
		case *ast.AssignStmt:
			if len(x.Lhs) == len(x.Rhs) && (x.Tok == token.ASSIGN || x.Tok == token.DEFINE) {
				for i, l := range x.Lhs {
					id, ok := ast.Unparen(l).(*ast.Ident)
					if !ok {
						continue
					}
					obj := info.ObjectOf(id)
					if obj == nil || isCand(obj) == nil {
						continue
					}
					if len(x.Lhs) == 1 && litOf(obj, x.Rhs[i]) {
						okUse[id] = true
					}
				}
			}
		case *ast.ValueSpec:
			for _, nm := range x.Names {
				obj := info.ObjectOf(nm)
				if obj == nil || isCand(obj) == nil {
					continue
				}
				if len(x.Values) == 0 || (len(x.Names) == 1 && len(x.Values) == 1 && litOf(obj, x.Values[0])) {
					okUse[nm] = true
				}
			}
		case *ast.UnaryExpr:
			if x.Op == token.AND {
				// &v or &v.f: the address escapes
				e := ast.Unparen(x.X)
				if sel, ok := e.(*ast.SelectorExpr); ok {
					e = ast.Unparen(sel.X)
				}
				if id, ok := e.(*ast.Ident); ok {
					if obj := info.ObjectOf(id); obj != nil {
						bad[obj] = true
					}
				}
			}
		case *ast.SelectorExpr:
			if id, ok := ast.Unparen(x.X).(*ast.Ident); ok {
				if obj := info.ObjectOf(id); obj != nil && isCand(obj) != nil {
					if s := info.Selections[x]; s != nil && s.Kind() == types.FieldVal && len(s.Index()) == 1 {
						okUse[id] = true
					}
				}
			}
		}
		return true
	})
	ast.Inspect(body, func(n ast.Node) bool {
		id, ok := n.(*ast.Ident)
		if !ok {
			return true
		}
		obj := info.ObjectOf(id)
		if obj == nil {
			return true
		}
		st := isCand(obj)
		if st == nil {
			return true
		}
		if !okUse[id] {
			bad[obj] = true
			return true
		}
		if cands[obj] == nil {
			cands[obj] = &sroaVar{obj: obj.(*types.Var), st: st}
		}
		return true
	})
	for obj := range bad {
		delete(cands, obj)
	}
	if len(cands) == 0 {
		return body
	}
	for _, sv := range cands {
		for i := 0; i < sv.st.NumFields(); i++ {
			f := sv.st.Field(i)
			sv.fields = append(sv.fields, types.NewVar(sv.obj.Pos(), sv.obj.Pkg(), VarName(sv.obj)+"_"+f.Name(), f.Type()))
		}
	}
	use := func(v *types.Var, pos token.Pos) *ast.Ident {
		id := &ast.Ident{NamePos: pos, Name: VarName(v)}
		info.Uses[id] = v
		info.Types[id] = types.TypeAndValue{Type: v.Type()}
		return id
	}
	def := func(v *types.Var, pos token.Pos) *ast.Ident {
		id := &ast.Ident{NamePos: pos, Name: VarName(v)}
		info.Defs[id] = v
		return id
	}
	c := &cloner{info: info}
	fieldValues := func(sv *sroaVar, lit *ast.CompositeLit, pos token.Pos) []ast.Expr {
		vals := make([]ast.Expr, sv.st.NumFields())
		if lit != nil {
			for i, el := range lit.Elts {
				if kv, ok := el.(*ast.KeyValueExpr); ok {
					if k, ok := kv.Key.(*ast.Ident); ok {
						for j := 0; j < sv.st.NumFields(); j++ {
							if sv.st.Field(j).Name() == k.Name {
								vals[j] = c.node(kv.Value).(ast.Expr)
							}
						}
					}
				} else if i < len(vals) {
					vals[i] = c.node(el).(ast.Expr)
				}
			}
		}
		for j := range vals {
			if vals[j] == nil {
				vals[j] = sroaZero(info, sv.st.Field(j).Type(), pos)
			}
		}
		return vals
	}
	c.rewrite = func(n ast.Node) ast.Node {
		switch x := n.(type) {
		case *ast.SelectorExpr:
			if id, ok := ast.Unparen(x.X).(*ast.Ident); ok {
				if sv := cands[info.ObjectOf(id)]; sv != nil {
					if s := info.Selections[x]; s != nil && s.Kind() == types.FieldVal && len(s.Index()) == 1 {
						return use(sv.fields[s.Index()[0]], x.Pos())
					}
				}
			}
		case *ast.AssignStmt:
			if len(x.Lhs) == 1 && len(x.Rhs) == 1 {
				if id, ok := ast.Unparen(x.Lhs[0]).(*ast.Ident); ok {
					if sv := cands[info.ObjectOf(id)]; sv != nil {
						lit, _ := ast.Unparen(x.Rhs[0]).(*ast.CompositeLit)
						out := &ast.AssignStmt{TokPos: x.TokPos, Tok: x.Tok}
						for _, fv := range sv.fields {
							if x.Tok == token.DEFINE {
								out.Lhs = append(out.Lhs, def(fv, x.Pos()))
							} else {
								out.Lhs = append(out.Lhs, use(fv, x.Pos()))
							}
						}
						out.Rhs = fieldValues(sv, lit, x.Pos())
						return out
					}
				}
			}
		case *ast.DeclStmt:
			gd, ok := x.Decl.(*ast.GenDecl)
			if !ok || gd.Tok != token.VAR {
				return nil
			}
			changed := false
			ng := &ast.GenDecl{TokPos: gd.TokPos, Tok: gd.Tok, Lparen: gd.Lparen, Rparen: gd.Rparen}
			for _, sp := range gd.Specs {
				vs, ok := sp.(*ast.ValueSpec)
				if !ok || len(vs.Names) != 1 || cands[info.ObjectOf(vs.Names[0])] == nil {
					ng.Specs = append(ng.Specs, c.node(sp).(ast.Spec))
					continue
				}
				sv := cands[info.ObjectOf(vs.Names[0])]
				changed = true
				var lit *ast.CompositeLit
				if len(vs.Values) == 1 {
					lit, _ = ast.Unparen(vs.Values[0]).(*ast.CompositeLit)
				}
				vals := fieldValues(sv, lit, vs.Pos())
				for j, fv := range sv.fields {
					ng.Specs = append(ng.Specs, &ast.ValueSpec{Names: []*ast.Ident{def(fv, vs.Pos())}, Values: []ast.Expr{vals[j]}})
				}
			}
			if changed {
				if len(ng.Specs) > 1 && !ng.Lparen.IsValid() {
					ng.Lparen, ng.Rparen = gd.Pos(), gd.End()
				}
				return &ast.DeclStmt{Decl: ng}
			}
		}
		return nil
	}
	return c.node(body).(*ast.BlockStmt)
}

// sroaZero returns an expression for the zero value of a field type, or nil
// when the type has no simple zero literal.
func sroaZero(info *types.Info, t types.Type, pos token.Pos) ast.Expr {
	switch u := t.Underlying().(type) {
	case *types.Pointer, *types.Interface, *types.Slice, *types.Map, *types.Chan, *types.Signature:
		id := &ast.Ident{NamePos: pos, Name: "nil"}
		info.Uses[id] = types.Universe.Lookup("nil")
		info.Types[id] = types.TypeAndValue{Type: t}
		return id
	case *types.Basic:
		switch {
		case u.Info()&types.IsBoolean != 0:
			id := &ast.Ident{NamePos: pos, Name: "false"}
			info.Uses[id] = types.Universe.Lookup("false")
			info.Types[id] = types.TypeAndValue{Type: t, Value: constant.MakeBool(false)}
			return id
		case u.Info()&types.IsInteger != 0:
			lit := &ast.BasicLit{ValuePos: pos, Kind: token.INT, Value: "0"}
			info.Types[lit] = types.TypeAndValue{Type: t, Value: constant.MakeInt64(0)}
			return lit
		case u.Info()&types.IsString != 0:
			lit := &ast.BasicLit{ValuePos: pos, Kind: token.STRING, Value: `""`}
			info.Types[lit] = types.TypeAndValue{Type: t, Value: constant.MakeString("")}
			return lit
		case u.Info()&types.IsFloat != 0:
			lit := &ast.BasicLit{ValuePos: pos, Kind: token.FLOAT, Value: "0.0"}
			info.Types[lit] = types.TypeAndValue{Type: t, Value: constant.MakeFloat64(0)}
			return lit
		}
	}
	return nil
}

// propagateFieldReads replaces the uses of a local that caches a field of the
// receiver or of a parameter (P := sec.P; n := sec.keyBytes; key := sec.key)
// by the field expression itself, when the local is defined exactly once,
// never assigned again, its address is not taken, and no field of that name
// is assigned anywhere in the function.  This is the normal form the rules
// are written against; the defining statement stays where it is.
func propagateFieldReads(info *types.Info, root *Func, body *ast.BlockStmt) (*ast.BlockStmt, bool) {
	owner := map[types.Object]bool{}
	add := func(fl *ast.FieldList) {
		if fl == nil {
			return
		}
		for _, f := range fl.List {
			for _, n := range f.Names {
				if obj := info.ObjectOf(n); obj != nil {
					owner[obj] = true
				}
			}
		}
	}
	add(root.Decl.Recv)
	add(root.Decl.Type.Params)
	strip := func(e ast.Expr) ast.Expr {
		for {
			e = ast.Unparen(e)
			call, ok := e.(*ast.CallExpr)
			if !ok || len(call.Args) != 1 {
				return e
			}
			if tv, ok := info.Types[call.Fun]; !ok || !tv.IsType() {
				return e
			}
			e = call.Args[0]
		}
	}
	// field chain rooted at a parameter or the receiver: the names of the fields
	fieldChain := func(e ast.Expr) ([]string, bool) {
		var names []string
		for {
			sel, ok := ast.Unparen(e).(*ast.SelectorExpr)
			if !ok {
				break
			}
			s := info.Selections[sel]
			if s == nil || s.Kind() != types.FieldVal {
				return nil, false
			}
			names = append(names, sel.Sel.Name)
			e = sel.X
		}
		id, ok := ast.Unparen(e).(*ast.Ident)
		if !ok || len(names) == 0 || !owner[info.ObjectOf(id)] {
			return nil, false
		}
		return names, true
	}
	defs := map[types.Object]ast.Expr{}
	writes := map[types.Object]int{}
	fieldWritten := map[string]bool{}
	ownerWritten := false
	ast.Inspect(body, func(n ast.Node) bool {
		switch x := n.(type) {
		case *ast.FuncLit:
			// locals used inside closures are left alone
			ast.Inspect(x, func(m ast.Node) bool {
				if id, ok := m.(*ast.Ident); ok {
					if obj := info.ObjectOf(id); obj != nil {
						writes[obj] += 2
					}
				}
				return true
			})
			return false
		case *ast.AssignStmt:
			for i, l := range x.Lhs {
				switch lx := ast.Unparen(l).(type) {
				case *ast.Ident:
					obj := info.ObjectOf(lx)
					if obj == nil {
						continue
					}
					writes[obj]++
					if owner[obj] {
						ownerWritten = true
					}
					if x.Tok == token.DEFINE && len(x.Lhs) == len(x.Rhs) && info.Defs[lx] != nil {
						if _, ok := fieldChain(strip(x.Rhs[i])); ok {
							defs[obj] = x.Rhs[i]
						}
					}
				case *ast.SelectorExpr:
					fieldWritten[lx.Sel.Name] = true
				case *ast.IndexExpr, *ast.StarExpr:
					// writes through the cached value do not change which field it names
				}
			}
		case *ast.IncDecStmt:
			if id, ok := ast.Unparen(x.X).(*ast.Ident); ok {
				if obj := info.ObjectOf(id); obj != nil {
					writes[obj] += 2
				}
			}
			if sel, ok := ast.Unparen(x.X).(*ast.SelectorExpr); ok {
				fieldWritten[sel.Sel.Name] = true
			}
		case *ast.UnaryExpr:
			if x.Op == token.AND {
				if id, ok := ast.Unparen(x.X).(*ast.Ident); ok {
					if obj := info.ObjectOf(id); obj != nil {
						writes[obj] += 2
					}
				}
				if sel, ok := ast.Unparen(x.X).(*ast.SelectorExpr); ok {
					fieldWritten[sel.Sel.Name] = true
				}
			}
		case *ast.RangeStmt:
			for _, e := range []ast.Expr{x.Key, x.Value} {
				if id, ok := e.(*ast.Ident); ok {
					if obj := info.ObjectOf(id); obj != nil {
						writes[obj] += 2
					}
				}
			}
		}
		return true
	})
	if ownerWritten {
		return body, false
	}
	subst := map[types.Object]ast.Expr{}
	for obj, rhs := range defs {
		if writes[obj] != 1 {
			continue
		}
		names, _ := fieldChain(strip(rhs))
		bad := false
		for _, n := range names {
			if fieldWritten[n] {
				bad = true
			}
		}
		// only values: a cached slice, map or pointer is the same storage, a cached
		// number or string the same value; struct copies are left alone
		switch obj.Type().Underlying().(type) {
		case *types.Struct, *types.Array:
			bad = true
		}
		if !bad {
			subst[obj] = rhs
		}
	}
	if len(subst) == 0 {
		return body, false
	}
	c := &cloner{info: info}
	c.rewrite = func(n ast.Node) ast.Node {
		id, ok := n.(*ast.Ident)
		if !ok {
			return nil
		}
		obj := info.Uses[id]
		if obj == nil {
			return nil
		}
		rhs, ok := subst[obj]
		if !ok {
			return nil
		}
		return (&cloner{info: info}).node(rhs)
	}
	return c.node(body).(*ast.BlockStmt), true
}

// FieldAliases returns the locals of f that cache a field of the receiver or
// of a parameter (P := sec.P), defined once and never reassigned, with the
// expression they stand for.  Rules that compare expressions use it to read
// such a local as the field it names.
func (f *Func) FieldAliases() map[types.Object]ast.Expr {
	info := f.Info()
	owner := map[types.Object]bool{}
	add := func(fl *ast.FieldList) {
		if fl == nil {
			return
		}
		for _, fd := range fl.List {
			for _, n := range fd.Names {
				if obj := info.ObjectOf(n); obj != nil {
					owner[obj] = true
				}
			}
		}
	}
	add(f.Decl.Recv)
	add(f.Decl.Type.Params)
	out := map[types.Object]ast.Expr{}
	if f.Decl.Body == nil {
		return out
	}
	writes := map[types.Object]int{}
	fieldWritten := map[string]bool{}
	cand := map[types.Object]ast.Expr{}
	strip := func(e ast.Expr) ast.Expr {
		for {
			e = ast.Unparen(e)
			call, ok := e.(*ast.CallExpr)
			if !ok || len(call.Args) != 1 {
				return e
			}
			if tv, ok := info.Types[call.Fun]; !ok || !tv.IsType() {
				return e
			}
			e = call.Args[0]
		}
	}
	chain := func(e ast.Expr) ([]string, bool) {
		var names []string
		for {
			sel, ok := ast.Unparen(e).(*ast.SelectorExpr)
			if !ok {
				break
			}
			s := info.Selections[sel]
			if s == nil || s.Kind() != types.FieldVal {
				return nil, false
			}
			names = append(names, sel.Sel.Name)
			e = sel.X
		}
		id, ok := ast.Unparen(e).(*ast.Ident)
		if !ok || len(names) == 0 || !owner[info.ObjectOf(id)] {
			return nil, false
		}
		return names, true
	}
	ast.Inspect(f.Decl.Body, func(n ast.Node) bool {
		switch x := n.(type) {
		case *ast.AssignStmt:
			for i, l := range x.Lhs {
				switch lx := ast.Unparen(l).(type) {
				case *ast.Ident:
					obj := info.ObjectOf(lx)
					if obj == nil {
						continue
					}
					writes[obj]++
					if x.Tok == token.DEFINE && len(x.Lhs) == len(x.Rhs) && info.Defs[lx] != nil {
						if _, ok := chain(strip(x.Rhs[i])); ok {
							cand[obj] = strip(x.Rhs[i])
						}
					}
				case *ast.SelectorExpr:
					fieldWritten[lx.Sel.Name] = true
				}
			}
		case *ast.IncDecStmt:
			if id, ok := ast.Unparen(x.X).(*ast.Ident); ok {
				if obj := info.ObjectOf(id); obj != nil {
					writes[obj] += 2
				}
			}
		case *ast.UnaryExpr:
			if x.Op == token.AND {
				if id, ok := ast.Unparen(x.X).(*ast.Ident); ok {
					if obj := info.ObjectOf(id); obj != nil {
						writes[obj] += 2
					}
				}
			}
		}
		return true
	})
	for obj, rhs := range cand {
		if writes[obj] != 1 {
			continue
		}
		names, _ := chain(rhs)
		bad := false
		for _, n := range names {
			if fieldWritten[n] {
				bad = true
			}
		}
		if !bad {
			out[obj] = rhs
		}
	}
	return out
}

// ExprStrAliased renders e like ExprStr with the field-caching locals of f
// replaced by the fields they stand for.
func ExprStrAliased(f *Func, e ast.Expr) string {
	al := f.FieldAliases()
	if len(al) == 0 {
		return ExprStr(e)
	}
	info := f.Info()
	c := &cloner{info: info}
	c.rewrite = func(n ast.Node) ast.Node {
		id, ok := n.(*ast.Ident)
		if !ok {
			return nil
		}
		if rhs, ok := al[info.Uses[id]]; ok {
			return (&cloner{info: info}).node(rhs)
		}
		return nil
	}
	return ExprStr(c.node(e).(ast.Expr))
}

// primaryExpr: an expression that binds tighter than any operator, so that
// it can stand for an identifier without parentheses.
func primaryExpr(e ast.Expr) bool {
	switch x := e.(type) {
	case *ast.Ident, *ast.BasicLit, *ast.ParenExpr, *ast.CallExpr:
		return true
	case *ast.SelectorExpr:
		return primaryExpr(x.X)
	case *ast.IndexExpr:
		return primaryExpr(x.X)
	}
	return false
}
