package core

import (
	"go/ast"
	"go/constant"
	"go/token"
	"go/types"
	"os"
	"sync"

	"golang.org/x/tools/go/cfg"
)

// EdgeLabel distinguishes the two out-edges of a branching vertex.
type EdgeLabel uint8

const (
	EdgeNone  EdgeLabel = iota
	EdgeTrue            // condition holds / case matches / loop iterates
	EdgeFalse           // condition fails / case does not match / loop done
)

// Cond describes the test performed by a branching vertex.
type Cond struct {
	Expr     ast.Expr        // boolean expression, or the case expression of a tagged switch
	Tag      ast.Expr        // tag of a tagged switch (then the test is Tag == Expr)
	TypeCase *ast.CaseClause // case clause of a type switch (test: dynamic type is one of the clause's types)
	TypeSw   *ast.TypeSwitchStmt
	Range    *ast.RangeStmt // loop head of a range statement
	Select   bool
}

// V is a vertex of the node-level control flow graph.
type V struct {
	ID    int
	AST   ast.Node // nil for synthetic vertices
	Block *cfg.Block
	Succs []Edge
	Preds []*V
	Cond  *Cond
	Kind  string // "", "head", "exit", "panic"
}

// Edge is a labelled control-flow edge.
type Edge struct {
	To    *V
	Label EdgeLabel
}

// Graph is the node-level control-flow graph of one function body.
type Graph struct {
	Fn     *Func
	Info   *types.Info
	Body   *ast.BlockStmt
	CFG    *cfg.CFG
	Vs     []*V
	Entry  *V
	Exit   *V // reached by return statements and by falling off the end
	Panic  *V // reached by calls that do not return
	Defers []*ast.DeferStmt
	sw     map[*ast.CaseClause]ast.Stmt

	nodeOnce    sync.Once
	nodeV       map[ast.Node]*V
	flagsOnce   sync.Once
	flags       bool
	untOnce     sync.Once
	trackGaveUp bool // flag tracking exceeded its state bound once (see ReachFromTracked)
	unt         map[types.Object]bool
	flagVars    map[types.Object]bool // the constant-valued locals some branch tests
}

// Graph returns the control-flow graph of the function body.
func (f *Func) Graph() *Graph {
	f.cfgOnce.Do(func() {
		f.graph = BuildGraph(f, f.Decl.Body)
	})
	return f.graph
}

// LitGraph builds the graph of a function literal's body.
func (f *Func) LitGraph(lit *ast.FuncLit) *Graph {
	return BuildGraph(f, lit.Body)
}

func noReturnCall(info *types.Info, call *ast.CallExpr) bool {
	switch fun := ast.Unparen(call.Fun).(type) {
	case *ast.Ident:
		if b, ok := info.Uses[fun].(*types.Builtin); ok && b.Name() == "panic" {
			return true
		}
	case *ast.SelectorExpr:
		if fn, ok := info.Uses[fun.Sel].(*types.Func); ok && fn.Pkg() != nil {
			full := fn.Pkg().Path() + "." + fn.Name()
			switch full {
			case "os.Exit", "log.Fatal", "log.Fatalf", "log.Fatalln", "runtime.Goexit":
				return true
			}
		}
	}
	return false
}

// BuildGraph constructs the node-level graph for a body.
func BuildGraph(f *Func, body *ast.BlockStmt) *Graph {
	info := f.Pkg.TypesInfo
	g := &Graph{Fn: f, Info: info, Body: body, sw: map[*ast.CaseClause]ast.Stmt{}}
	ast.Inspect(body, func(n ast.Node) bool {
		switch s := n.(type) {
		case *ast.FuncLit:
			return false
		case *ast.SwitchStmt:
			for _, c := range s.Body.List {
				g.sw[c.(*ast.CaseClause)] = s
			}
		case *ast.TypeSwitchStmt:
			for _, c := range s.Body.List {
				g.sw[c.(*ast.CaseClause)] = s
			}
		case *ast.DeferStmt:
			g.Defers = append(g.Defers, s)
		}
		return true
	})
	g.CFG = cfg.New(body, func(call *ast.CallExpr) bool { return !noReturnCall(info, call) })
	newV := func(kind string, n ast.Node, b *cfg.Block) *V {
		v := &V{ID: len(g.Vs), AST: n, Block: b, Kind: kind}
		g.Vs = append(g.Vs, v)
		return v
	}
	g.Exit = newV("exit", nil, nil)
	g.Panic = newV("panic", nil, nil)
	heads := map[*cfg.Block]*V{}
	tails := map[*cfg.Block]*V{}
	for _, b := range g.CFG.Blocks {
		h := newV("head", nil, b)
		heads[b] = h
		cur := h
		for _, n := range b.Nodes {
			v := newV("", n, b)
			cur.Succs = append(cur.Succs, Edge{To: v})
			cur = v
		}
		tails[b] = cur
	}
	for _, b := range g.CFG.Blocks {
		t := tails[b]
		switch len(b.Succs) {
		case 0:
			// return, no-return call, or falling off the end
			if t.AST != nil {
				if es, ok := t.AST.(*ast.ExprStmt); ok {
					if call, ok := es.X.(*ast.CallExpr); ok && noReturnCall(info, call) {
						t.Succs = append(t.Succs, Edge{To: g.Panic})
						continue
					}
				}
			}
			t.Succs = append(t.Succs, Edge{To: g.Exit})
		case 1:
			t.Succs = append(t.Succs, Edge{To: heads[b.Succs[0]]})
		case 2:
			c := &Cond{}
			s0 := b.Succs[0]
			switch {
			case s0.Kind == cfg.KindRangeBody:
				c.Range, _ = s0.Stmt.(*ast.RangeStmt)
			case s0.Kind == cfg.KindSelectCaseBody:
				c.Select = true
			case s0.Kind == cfg.KindSwitchCaseBody:
				cc, _ := s0.Stmt.(*ast.CaseClause)
				switch sw := g.sw[cc].(type) {
				case *ast.TypeSwitchStmt:
					c.TypeCase = cc
					c.TypeSw = sw
				case *ast.SwitchStmt:
					if e, ok := t.AST.(ast.Expr); ok {
						c.Expr = e
						c.Tag = sw.Tag
						if sw.Tag == nil {
							c.Expr = ConstRight(info, e)
						}
					}
				}
			default:
				if e, ok := t.AST.(ast.Expr); ok {
					c.Expr = ConstRight(info, e)
				}
			}
			t.Cond = c
			// "if !x" is "if x" with the edges exchanged: conditions are kept without the
			// outer negation, so that a branch written the other way round is the same branch
			l0, l1 := EdgeTrue, EdgeFalse
			// (loop heads keep theirs: the true edge of a loop head is the loop body to every rule)
			if c.Expr != nil && c.Tag == nil && s0.Kind == cfg.KindIfThen && os.Getenv("PDFVERIF_KEEPNOT") == "" {
				for {
					u, ok := ast.Unparen(c.Expr).(*ast.UnaryExpr)
					if !ok || u.Op != token.NOT {
						break
					}
					c.Expr = ConstRight(info, u.X)
					l0, l1 = l1, l0
				}
			}
			t.Succs = append(t.Succs, Edge{To: heads[b.Succs[0]], Label: l0}, Edge{To: heads[b.Succs[1]], Label: l1})
		default:
			for _, s := range b.Succs {
				t.Succs = append(t.Succs, Edge{To: heads[s]})
			}
		}
	}
	if len(g.CFG.Blocks) > 0 {
		g.Entry = heads[g.CFG.Blocks[0]]
	} else {
		g.Entry = g.Exit
	}
	for _, v := range g.Vs {
		for _, e := range v.Succs {
			e.To.Preds = append(e.To.Preds, v)
		}
	}
	return g
}

// VertexOf returns the vertex whose AST node contains n (the innermost
// such vertex), or nil.  Nodes inside function literals belong to the
// vertex that contains the literal.
func (g *Graph) VertexOf(n ast.Node) *V {
	// by identity first: two folded-in copies of one helper have the same
	// positions, and only the node tells them apart
	g.nodeOnce.Do(func() {
		g.nodeV = map[ast.Node]*V{}
		for _, v := range g.Vs {
			if v.AST == nil {
				continue
			}
			v := v
			span := v.AST.End() - v.AST.Pos()
			ast.Inspect(v.AST, func(m ast.Node) bool {
				if m == nil {
					return false
				}
				if _, isLit := m.(*ast.FuncLit); isLit {
					return false
				}
				if old, ok := g.nodeV[m]; !ok || span < old.AST.End()-old.AST.Pos() {
					g.nodeV[m] = v
				}
				return true
			})
		}
	})
	if v, ok := g.nodeV[n]; ok {
		return v
	}
	var best *V
	for _, v := range g.Vs {
		if v.AST == nil {
			continue
		}
		if v.AST.Pos() <= n.Pos() && n.End() <= v.AST.End() {
			if best == nil || (v.AST.End()-v.AST.Pos()) < (best.AST.End()-best.AST.Pos()) {
				best = v
			}
		}
	}
	return best
}

// MustVertexOf is VertexOf that gives up when the node is not in the graph.
func (g *Graph) MustVertexOf(n ast.Node) *V {
	v := g.VertexOf(n)
	if v == nil {
		Undecided("node at %s is not part of the control-flow graph of %s (dead code?)", g.Fn.Prog.Pos(n.Pos()), g.Fn.Key)
	}
	return v
}

// EdgeRef names one labelled out-edge of a branching vertex.
type EdgeRef struct {
	From  *V
	Label EdgeLabel
}

// Avoid describes vertices and edges that a path may not use.
type Avoid struct {
	Vs    map[*V]bool
	Edges map[EdgeRef]bool
}

func (a *Avoid) v(v *V) bool { return a != nil && a.Vs != nil && a.Vs[v] }
func (a *Avoid) e(from *V, l EdgeLabel) bool {
	return a != nil && a.Edges != nil && l != EdgeNone && a.Edges[EdgeRef{from, l}]
}

// AvoidVs builds an Avoid from vertices.
func AvoidVs(vs ...*V) *Avoid {
	a := &Avoid{Vs: map[*V]bool{}}
	for _, v := range vs {
		if v != nil {
			a.Vs[v] = true
		}
	}
	return a
}

// AvoidEdges builds an Avoid from edges.
func AvoidEdges(es ...EdgeRef) *Avoid {
	a := &Avoid{Edges: map[EdgeRef]bool{}}
	for _, e := range es {
		a.Edges[e] = true
	}
	return a
}

// With returns a copy of a that additionally avoids the given vertices.
func (a *Avoid) With(vs ...*V) *Avoid {
	n := &Avoid{Vs: map[*V]bool{}, Edges: map[EdgeRef]bool{}}
	if a != nil {
		for k := range a.Vs {
			n.Vs[k] = true
		}
		for k := range a.Edges {
			n.Edges[k] = true
		}
	}
	for _, v := range vs {
		if v != nil {
			n.Vs[v] = true
		}
	}
	return n
}

// WithEdges returns a copy of a that additionally avoids the given edges.
func (a *Avoid) WithEdges(es ...EdgeRef) *Avoid {
	n := a.With()
	for _, e := range es {
		n.Edges[e] = true
	}
	return n
}

// ReachFrom computes the set of vertices reachable from the successors of
// `from` (from itself is included only if it lies on a cycle), never
// entering avoided vertices or using avoided edges.  If startAt is true the
// search starts at from itself (from is included).
func (g *Graph) ReachFrom(from *V, startAt bool, avoid *Avoid) map[*V]bool {
	if g.usesFlags() {
		// decisions carried in constant-valued locals are followed
		return g.ReachFromTracked(from, startAt, avoid)
	}
	return g.reachPlain(from, startAt, avoid)
}

// usesFlags reports whether some branch of the graph tests a local variable
// that is only ever assigned constants (a flag or an enumeration) and has at
// least two different values: only then can path-sensitivity change anything.
func (g *Graph) usesFlags() bool {
	g.flagsOnce.Do(func() {
		if os.Getenv("PDFVERIF_NOFLAGS") != "" {
			return
		}
		for _, bv := range g.BranchVertices() {
			for _, l := range []EdgeLabel{EdgeTrue, EdgeFalse} {
				for _, a := range bv.Implied(l) {
					obj, _, _, ok := g.flagTest(a)
					if !ok {
						continue
					}
					defs := g.constDefs(obj)
					vals := map[int64]bool{}
					for _, d := range defs {
						vals[d.k] = true
					}
					if len(vals) >= 2 {
						g.flags = true
						if g.flagVars == nil {
							g.flagVars = map[types.Object]bool{}
						}
						g.flagVars[obj] = true
					}
					// a local that is tested for nil and assigned nil or a
					// copy of another local somewhere (the shape inlined
					// "return nil, err" / "if err != nil" takes) is followed
					// as nil / non-nil
					if nilable(obj) && (g.assignedNilOrCopy(obj) || g.retestedWithoutDef(obj, bv)) {
						g.flags = true
						if g.flagVars == nil {
							g.flagVars = map[types.Object]bool{}
						}
						g.flagVars[obj] = true
						for _, src := range g.copySources(obj) {
							g.flagVars[src] = true
						}
					}
				}
			}
		}
	})
	return g.flags
}

// retestedWithoutDef: after the nil test of obj at bv, another nil test of
// obj can be reached without passing an assignment to obj (the chained form
// "if err == nil { err = step2() }; if err == nil { err = step3() }; if err
// != nil { return err }"): the outcomes of the two tests are correlated, which
// only a path-sensitive exploration sees.
func (g *Graph) retestedWithoutDef(obj types.Object, bv *V) bool {
	var defs []*V
	for _, v := range g.Vs {
		if v.AST == nil {
			continue
		}
		switch x := v.AST.(type) {
		case *ast.AssignStmt:
			for _, l := range x.Lhs {
				if id, ok := ast.Unparen(l).(*ast.Ident); ok && g.Info.ObjectOf(id) == obj {
					defs = append(defs, v)
				}
			}
		case *ast.ValueSpec:
			for _, n := range x.Names {
				if g.Info.ObjectOf(n) == obj {
					defs = append(defs, v)
				}
			}
		}
	}
	reach := g.reachPlain(bv, false, AvoidVs(defs...))
	for _, other := range g.BranchVertices() {
		if other == bv || !reach[other] {
			continue
		}
		for _, l := range []EdgeLabel{EdgeTrue, EdgeFalse} {
			for _, a := range other.Implied(l) {
				if o2, k, _, ok := g.flagTest(a); ok && o2 == obj && k == 0 {
					return true
				}
			}
		}
	}
	return false
}

// ReachPlain is ReachFrom without the tracking of flags: the reachability of
// the graph as drawn (what belongs to a loop, what lies behind an exit).
func (g *Graph) ReachPlain(from *V, startAt bool, avoid *Avoid) map[*V]bool {
	return g.reachPlain(from, startAt, avoid)
}

func (g *Graph) reachPlain(from *V, startAt bool, avoid *Avoid) map[*V]bool {
	seen := map[*V]bool{}
	var stack []*V
	push := func(v *V) {
		if !seen[v] && !avoid.v(v) {
			seen[v] = true
			stack = append(stack, v)
		}
	}
	if startAt {
		push(from)
	} else {
		for _, e := range from.Succs {
			if !avoid.e(from, e.Label) {
				push(e.To)
			}
		}
	}
	for len(stack) > 0 {
		v := stack[len(stack)-1]
		stack = stack[:len(stack)-1]
		for _, e := range v.Succs {
			if avoid.e(v, e.Label) {
				continue
			}
			push(e.To)
		}
	}
	return seen
}

// Reachable reports whether `to` can be reached from entry.
func (g *Graph) Reachable(to *V, avoid *Avoid) bool {
	return g.ReachFrom(g.Entry, true, avoid)[to]
}

// Dominates reports whether every path from the entry to `site` passes
// through vertex d.
func (g *Graph) Dominates(d, site *V) bool {
	if d == site {
		return true
	}
	return !g.ReachFrom(g.Entry, true, AvoidVs(d))[site]
}

// EdgeDominates reports whether every path from entry to site uses one of
// the given edges (i.e. site becomes unreachable when the edges are cut).
func (g *Graph) EdgeDominates(site *V, edges ...EdgeRef) bool {
	if !g.Reachable(site, nil) {
		return false
	}
	// the complementary view: cut the listed edges, site must be unreachable
	return !g.ReachFrom(g.Entry, true, AvoidEdges(edges...))[site]
}

// OnlyVia reports whether every path from entry to site that does not use
// one of the `good` edges is impossible; equivalently: cutting all `good`
// edges disconnects site.  (Alias of EdgeDominates, kept for readability.)
func (g *Graph) OnlyVia(site *V, good ...EdgeRef) bool { return g.EdgeDominates(site, good...) }

// MustPassBefore reports whether every path from `from` (exclusive) to any
// of `targets` passes through one of `via`.  Targets that are unreachable
// from `from` impose nothing.
func (g *Graph) MustPassBefore(from *V, targets []*V, via []*V) bool {
	r := g.ReachFrom(from, false, AvoidVs(via...))
	for _, t := range targets {
		if r[t] {
			return false
		}
	}
	return true
}

// PathExists reports whether some path leads from `from` (exclusive) to `to`.
func (g *Graph) PathExists(from, to *V, avoid *Avoid) bool {
	return g.ReachFrom(from, false, avoid)[to]
}

// Returns lists the return statements of the graph.
func (g *Graph) Returns() []*V {
	var out []*V
	for _, v := range g.Vs {
		if _, ok := v.AST.(*ast.ReturnStmt); ok {
			out = append(out, v)
		}
	}
	return out
}

// ExitPreds lists the vertices that flow into the exit vertex (return
// statements and the fall-off-the-end tail).
func (g *Graph) ExitPreds() []*V { return g.Exit.Preds }

// BranchVertices returns all vertices carrying a condition.
func (g *Graph) BranchVertices() []*V {
	var out []*V
	for _, v := range g.Vs {
		if v.Cond != nil {
			out = append(out, v)
		}
	}
	return out
}

// Atom is an atomic boolean expression with a polarity.
type Atom struct {
	Expr ast.Expr
	Neg  bool     // the atom is known to be FALSE
	Tag  ast.Expr // for tagged-switch cases: the fact is Tag == Expr (or != when Neg)
}

// Implied returns the atomic facts known to hold when the branching vertex
// v is left through the edge with the given label.  Conjunctions are
// decomposed on the true edge, disjunctions on the false edge, negations
// flip.  For tagged switches the single fact "Tag == Expr" is produced on
// the true edge.  This is sound (facts really hold) and incomplete.
func (v *V) Implied(label EdgeLabel) []Atom {
	c := v.Cond
	if c == nil || c.Expr == nil {
		return nil
	}
	if c.Tag != nil {
		return []Atom{{Expr: c.Expr, Tag: c.Tag, Neg: label == EdgeFalse}}
	}
	return ImpliedBy(c.Expr, label == EdgeTrue)
}

// ImpliedBy returns the atomic facts that follow from "e evaluates to truth".
func ImpliedBy(cond ast.Expr, truthOfCond bool) []Atom {
	var out []Atom
	var walk func(e ast.Expr, truth bool)
	walk = func(e ast.Expr, truth bool) {
		e = ast.Unparen(e)
		switch x := e.(type) {
		case *ast.UnaryExpr:
			if x.Op == token.NOT {
				walk(x.X, !truth)
				return
			}
		case *ast.BinaryExpr:
			if x.Op == token.LAND && truth {
				walk(x.X, true)
				walk(x.Y, true)
				return
			}
			if x.Op == token.LOR && !truth {
				walk(x.X, false)
				walk(x.Y, false)
				return
			}
			if x.Op == token.LAND || x.Op == token.LOR {
				// no single fact follows; record the compound itself
				out = append(out, Atom{Expr: e, Neg: !truth})
				return
			}
		}
		out = append(out, Atom{Expr: e, Neg: !truth})
	}
	walk(cond, truthOfCond)
	return out
}

// GuardEdges returns all edges of the graph on which a fact accepted by
// pred is known to hold.
func (g *Graph) GuardEdges(pred func(a Atom) bool) []EdgeRef {
	var out []EdgeRef
	for _, v := range g.Vs {
		if v.Cond == nil {
			continue
		}
		for _, l := range []EdgeLabel{EdgeTrue, EdgeFalse} {
			for _, a := range v.Implied(l) {
				if pred(a) {
					out = append(out, EdgeRef{v, l})
					break
				}
			}
		}
	}
	return out
}

// GuardedBy reports whether site can only be reached through an edge on
// which some fact accepted by pred holds.
func (g *Graph) GuardedBy(site *V, pred func(a Atom) bool) bool {
	return g.guardedBy(site, pred, 2, false)
}

// GuardedBySampled is GuardedBy for facts that do not change during the
// function (an option of the writer, a property of the file): a boolean
// local defined once as the result of a call (useStream := opt.HasAny(f))
// carries the facts of that call to the place where the local is tested.
func (g *Graph) GuardedBySampled(site *V, pred func(a Atom) bool) bool {
	return g.guardedBy(site, pred, 2, true)
}

func (g *Graph) guardedBy(site *V, pred func(a Atom) bool, depth int, sampled bool) bool {
	es := g.GuardEdges(pred)
	if len(es) > 0 && g.EdgeDominates(site, es...) {
		return true
	}
	if depth == 0 {
		return false
	}
	// The decision may have been taken earlier and be carried in a local
	// variable (a flag or an enumeration: role = waiter; ...; switch role):
	// site is guarded by "x == K" and every assignment that can give x a
	// value satisfying that test is itself guarded by a fact pred accepts.
	for _, bv := range g.BranchVertices() {
		for _, l := range []EdgeLabel{EdgeTrue, EdgeFalse} {
			if !g.EdgeDominates(site, EdgeRef{From: bv, Label: l}) {
				continue
			}
			for _, a := range bv.Implied(l) {
				obj, k, eq, ok := g.flagTest(a)
				if !ok {
					continue
				}
				// a boolean local that names a condition (implicit := w0 == 0):
				// the facts of that condition hold where the local is tested
				if e, truth, isNamed := g.namedCondition(obj, k, eq, sampled); isNamed {
					for _, a2 := range ImpliedBy(e, truth) {
						if pred(a2) {
							return true
						}
					}
				}
				defs := g.constDefs(obj)
				if defs == nil && k == 0 && nilable(obj) {
					defs = g.nilDefs(obj)
				}
				if defs == nil {
					continue
				}
				all, any := true, false
				for _, d := range defs {
					if (d.k == k) != eq {
						continue // this assignment does not satisfy the test
					}
					// does it reach the test?
					var others []*V
					for _, x := range defs {
						if x.v != d.v {
							others = append(others, x.v)
						}
					}
					if !g.ReachFrom(d.v, false, AvoidVs(others...))[bv] {
						continue
					}
					any = true
					if !g.guardedBy(d.v, pred, depth-1, sampled) {
						all = false
					}
				}
				if any && all {
					return true
				}
			}
		}
	}
	return false
}

// namedCondition: obj is a boolean local with exactly one definition, whose
// right-hand side is a (non-constant) boolean expression over variables that
// are themselves assigned only once; the test "obj == k" (eq) then means the
// expression has the returned truth value.
func (g *Graph) namedCondition(obj types.Object, k int64, eq bool, calls bool) (ast.Expr, bool, bool) {
	b, ok := obj.Type().Underlying().(*types.Basic)
	if !ok || b.Kind() != types.Bool {
		return nil, false, false
	}
	var rhs ast.Expr
	n := 0
	count := func(o types.Object) int {
		c := 0
		for _, v := range g.Vs {
			switch x := v.AST.(type) {
			case *ast.AssignStmt:
				for _, l := range x.Lhs {
					if id, ok := ast.Unparen(l).(*ast.Ident); ok && g.Info.ObjectOf(id) == o {
						c++
					}
				}
			case *ast.IncDecStmt:
				if id, ok := ast.Unparen(x.X).(*ast.Ident); ok && g.Info.ObjectOf(id) == o {
					c++
				}
			case *ast.ValueSpec:
				// a declaration without a value (the result variable of a folded-in helper,
				// assigned once afterwards) is not a second definition
				if len(x.Values) == 0 {
					continue
				}
				for _, nm := range x.Names {
					if g.Info.ObjectOf(nm) == o {
						c++
					}
				}
			}
		}
		return c
	}
	var defV *V
	for _, v := range g.Vs {
		as, ok := v.AST.(*ast.AssignStmt)
		if !ok || len(as.Lhs) != len(as.Rhs) {
			continue
		}
		for i, l := range as.Lhs {
			if id, ok := ast.Unparen(l).(*ast.Ident); ok && g.Info.ObjectOf(id) == obj {
				rhs = as.Rhs[i]
				defV = v
				n++
			}
		}
	}
	if n != 1 || rhs == nil || count(obj) != 1 {
		return nil, false, false
	}
	// a variable of the condition that is assigned more than once is still
	// described by the sampled condition if none of its assignments can
	// follow the sampling (a counter filled by a loop before it is tested)
	var after map[*V]bool
	var uses []*V
	assigns := func(v *V, o types.Object) bool {
		switch x := v.AST.(type) {
		case *ast.AssignStmt:
			for _, l := range x.Lhs {
				if id, ok := ast.Unparen(l).(*ast.Ident); ok && g.Info.ObjectOf(id) == o {
					return true
				}
			}
		case *ast.IncDecStmt:
			if id, ok := ast.Unparen(x.X).(*ast.Ident); ok && g.Info.ObjectOf(id) == o {
				return true
			}
		case *ast.RangeStmt:
			for _, e := range []ast.Expr{x.Key, x.Value} {
				if id, ok := e.(*ast.Ident); ok && g.Info.ObjectOf(id) == o {
					return true
				}
			}
		}
		return false
	}
	changedAfter := func(o types.Object) bool {
		if after == nil {
			// what can follow the sampling before the condition is sampled again
			after = g.reachPlain(defV, false, AvoidVs(defV))
			for _, v := range g.Vs {
				if v == defV || v.AST == nil {
					continue
				}
				if Mentions(g.Info, v.AST, obj) {
					uses = append(uses, v)
				}
			}
		}
		for v := range after {
			if !assigns(v, o) {
				continue
			}
			// ... and a test of the named condition can follow that assignment without a new sampling
			r := g.reachPlain(v, false, AvoidVs(defV))
			for _, u := range uses {
				if r[u] {
					return true
				}
			}
		}
		return false
	}
	if tv, ok := g.Info.Types[rhs]; ok && tv.Value != nil {
		return nil, false, false
	}
	stable := true
	ast.Inspect(rhs, func(m ast.Node) bool {
		switch x := m.(type) {
		case *ast.CallExpr:
			if tv, ok := g.Info.Types[x.Fun]; !(ok && tv.IsType()) {
				if id, isID := ast.Unparen(x.Fun).(*ast.Ident); !calls && (!isID || g.Info.Uses[id] == nil || g.Info.Uses[id].Pkg() != nil) {
					stable = false // a call: its value is not a fact about variables
				}
			}
		case *ast.Ident:
			if v, ok := g.Info.ObjectOf(x).(*types.Var); ok && !v.IsField() && v.Pkg() != nil && v.Parent() != v.Pkg().Scope() {
				if count(v) > 1 && changedAfter(v) {
					stable = false
				}
			}
		}
		return stable
	})
	if !stable {
		return nil, false, false
	}
	truth := (k != 0) == eq
	return rhs, truth, true
}

type constDef struct {
	v *V
	k int64
}

// flagTest interprets an atom as a test of a local variable against a
// constant: x == K / x != K (also from switch cases), or a boolean x / !x.
func (g *Graph) flagTest(a Atom) (obj types.Object, k int64, eq bool, ok bool) {
	local := func(e ast.Expr) types.Object {
		id, isID := ast.Unparen(e).(*ast.Ident)
		if !isID {
			return nil
		}
		v, isVar := g.Info.ObjectOf(id).(*types.Var)
		if !isVar || v.IsField() || v.Pkg() == nil || v.Parent() == v.Pkg().Scope() {
			return nil
		}
		return v
	}
	if cmp, isCmp := a.AsCmp(); isCmp && (cmp.Op == token.EQL || cmp.Op == token.NEQ) {
		for _, pair := range [][2]ast.Expr{{cmp.L, cmp.R}, {cmp.R, cmp.L}} {
			if o := local(pair[0]); o != nil {
				if c, isC := constVal(g.Info, pair[1]); isC {
					return o, c, cmp.Op == token.EQL, true
				}
			}
		}
		return nil, 0, false, false
	}
	if a.Tag == nil {
		if o := local(a.Expr); o != nil {
			if b, isB := o.Type().Underlying().(*types.Basic); isB && b.Info()&types.IsBoolean != 0 {
				return o, 1, !a.Neg, true
			}
		}
	}
	return nil, 0, false, false
}

func constVal(info *types.Info, e ast.Expr) (int64, bool) {
	// pointers are abstracted to nil (0) and "freshly allocated" (1)
	if IsNil(info, e) {
		return 0, true
	}
	if isFreshAlloc(info, e) {
		return 1, true
	}
	tv, ok := info.Types[e]
	if !ok || tv.Value == nil {
		return 0, false
	}
	switch tv.Value.Kind() {
	case constant.Bool:
		if constant.BoolVal(tv.Value) {
			return 1, true
		}
		return 0, true
	case constant.Int:
		n, exact := constant.Int64Val(tv.Value)
		return n, exact
	}
	return 0, false
}

func nilable(obj types.Object) bool {
	switch obj.Type().Underlying().(type) {
	case *types.Pointer, *types.Interface:
		return true
	}
	return false
}

// assignedNilOrCopy: some assignment gives obj the value nil or the value of another local.
func (g *Graph) assignedNilOrCopy(obj types.Object) bool {
	found := false
	g.eachAssign(obj, func(rhs ast.Expr) {
		if rhs == nil {
			return
		}
		if IsNil(g.Info, rhs) {
			found = true
		}
		if id, ok := ast.Unparen(rhs).(*ast.Ident); ok {
			if v, isVar := g.Info.ObjectOf(id).(*types.Var); isVar && !v.IsField() && nilable(v) {
				found = true
			}
		}
	})
	return found
}

// copySources returns the nilable locals whose value is copied into obj.
func (g *Graph) copySources(obj types.Object) []types.Object {
	var out []types.Object
	g.eachAssign(obj, func(rhs ast.Expr) {
		if rhs == nil {
			return
		}
		if id, ok := ast.Unparen(rhs).(*ast.Ident); ok {
			if v, isVar := g.Info.ObjectOf(id).(*types.Var); isVar && !v.IsField() && nilable(v) && v.Pkg() != nil && v.Parent() != v.Pkg().Scope() {
				out = append(out, v)
			}
		}
	})
	return out
}

// eachAssign calls f with the right-hand side of every assignment to obj
// (nil when the assignment is not position-by-position).
func (g *Graph) eachAssign(obj types.Object, f func(rhs ast.Expr)) {
	for _, v := range g.Vs {
		as, ok := v.AST.(*ast.AssignStmt)
		if !ok {
			continue
		}
		for i, l := range as.Lhs {
			id, ok := ast.Unparen(l).(*ast.Ident)
			if !ok || g.Info.ObjectOf(id) != obj {
				continue
			}
			if len(as.Lhs) == len(as.Rhs) {
				f(as.Rhs[i])
			} else {
				f(nil)
			}
		}
	}
}

// nilDefs classifies the assignments of a nilable local as nil (0) or
// non-nil (1): nil literals, fresh allocations, and copies of another local
// made where that local is known to be non-nil (the shape of an inlined
// "return nil, err" under "if err != nil").  Any other assignment makes the
// classification fail (nil result).
func (g *Graph) nilDefs(obj types.Object) []constDef {
	var out []constDef
	for _, v := range g.Vs {
		var rhs ast.Expr
		found := false
		switch s := v.AST.(type) {
		case *ast.AssignStmt:
			for i, l := range s.Lhs {
				if id, ok := ast.Unparen(l).(*ast.Ident); ok && g.Info.ObjectOf(id) == obj {
					found = true
					if len(s.Lhs) == len(s.Rhs) {
						rhs = s.Rhs[i]
					}
				}
			}
		case *ast.ValueSpec:
			for i, n := range s.Names {
				if g.Info.ObjectOf(n) == obj {
					found = true
					if len(s.Values) == 0 {
						out = append(out, constDef{v, 0})
						found = false
					} else if len(s.Values) == len(s.Names) {
						rhs = s.Values[i]
					}
				}
			}
		}
		if !found {
			continue
		}
		if rhs == nil {
			return nil
		}
		switch {
		case IsNil(g.Info, rhs):
			out = append(out, constDef{v, 0})
		case isFreshAlloc(g.Info, rhs):
			out = append(out, constDef{v, 1})
		default:
			src := ObjOf(g.Info, rhs)
			if src == nil {
				return nil
			}
			nonNil := false
			for _, a := range g.DominatingAtoms(v) {
				o2, k2, eq2, ok2 := g.flagTest(a)
				if ok2 && o2 == src && k2 == 0 && !eq2 {
					nonNil = true
				}
			}
			if !nonNil {
				return nil
			}
			out = append(out, constDef{v, 1})
		}
	}
	return out
}

// isFreshAlloc: &T{...} or new(T).
func isFreshAlloc(info *types.Info, e ast.Expr) bool {
	e = ast.Unparen(e)
	if u, ok := e.(*ast.UnaryExpr); ok && u.Op == token.AND {
		_, isLit := ast.Unparen(u.X).(*ast.CompositeLit)
		return isLit
	}
	if call, ok := e.(*ast.CallExpr); ok {
		if id, ok := ast.Unparen(call.Fun).(*ast.Ident); ok {
			if b, ok := info.Uses[id].(*types.Builtin); ok && b.Name() == "new" {
				return true
			}
		}
	}
	return false
}

// constDefs returns the assignments of obj when all of them assign
// constants (zero-value declarations count as 0); nil otherwise.
func (g *Graph) constDefs(obj types.Object) []constDef {
	var out []constDef
	for _, v := range g.Vs {
		switch s := v.AST.(type) {
		case *ast.AssignStmt:
			for i, l := range s.Lhs {
				id, ok := ast.Unparen(l).(*ast.Ident)
				if !ok || g.Info.ObjectOf(id) != obj {
					continue
				}
				if len(s.Lhs) != len(s.Rhs) || (s.Tok != token.ASSIGN && s.Tok != token.DEFINE) {
					return nil
				}
				k, isK := constVal(g.Info, s.Rhs[i])
				if !isK {
					return nil
				}
				out = append(out, constDef{v, k})
			}
		case *ast.DeclStmt:
			gd, ok := s.Decl.(*ast.GenDecl)
			if !ok {
				continue
			}
			for _, sp := range gd.Specs {
				vs, ok := sp.(*ast.ValueSpec)
				if !ok {
					continue
				}
				for i, n := range vs.Names {
					if g.Info.ObjectOf(n) != obj {
						continue
					}
					if len(vs.Values) == 0 {
						out = append(out, constDef{v, 0})
					} else if len(vs.Values) == len(vs.Names) {
						k, isK := constVal(g.Info, vs.Values[i])
						if !isK {
							return nil
						}
						out = append(out, constDef{v, k})
					} else {
						return nil
					}
				}
			}
		case *ast.ValueSpec:
			for i, n := range s.Names {
				if g.Info.ObjectOf(n) != obj {
					continue
				}
				if len(s.Values) == 0 {
					out = append(out, constDef{v, 0})
				} else if len(s.Values) == len(s.Names) {
					k, isK := constVal(g.Info, s.Values[i])
					if !isK {
						return nil
					}
					out = append(out, constDef{v, k})
				} else {
					return nil
				}
			}
		case *ast.IncDecStmt:
			if id, ok := ast.Unparen(s.X).(*ast.Ident); ok && g.Info.ObjectOf(id) == obj {
				return nil
			}
		}
	}
	return out
}

// InLoop reports whether v lies on a cycle.
func (g *Graph) InLoop(v *V) bool {
	return g.ReachFrom(v, false, nil)[v]
}
