package core

import (
	"bufio"
	"encoding/json"
	"fmt"
	"os"
	"path/filepath"
	"runtime/debug"
	"sort"
	"strconv"
	"strings"
	"sync"
	"time"
)

// Site is a source location taking part in an obligation.
type Site struct {
	Pos  string `json:"pos"`
	Func string `json:"func,omitempty"`
	Note string `json:"note,omitempty"`
}

// Status of an obligation.
type Status string

const (
	Discharged  Status = "discharged"
	Violated    Status = "violated"
	StUndecided Status = "undecided"
)

// Ob is one proof obligation: a rule applied to one construct.
type Ob struct {
	Rule   string   `json:"rule"`
	Key    string   `json:"key"`
	Desc   string   `json:"desc"`
	Status Status   `json:"status"`
	Detail string   `json:"detail,omitempty"`
	Sites  []Site   `json:"sites,omitempty"`
	Evals  int      `json:"constructs_inspected"`
	Facts  []string `json:"facts,omitempty"`
	// Unrecognised lists constructs this obligation knows only in one
	// written form and did not find in that form.  This is not a violation
	// (the form may have changed while the behaviour did not) and does not
	// fail the check; the obligation then says nothing about the construct.
	Unrecognised []string `json:"unrecognised,omitempty"`
	known        bool
	ruleFns      []ruleFrame
}

// Unrec records that the rule did not find the construct it knows (a count
// of sites that differs from the reviewed tree, a call or store that is not
// where the rule looks for it).  Like Shape it does not fail the obligation.
func (o *Ob) Unrec(format string, args ...any) {
	o.Evals++
	if Strict() {
		o.Fail(format, args...)
		return
	}
	if len(o.Unrecognised) < 20 {
		o.Unrecognised = append(o.Unrecognised, fmt.Sprintf(format, args...))
	}
}

// Shape notes that a construct recognised only by its written form is (cond
// true) or is not (cond false) present in that form.  Unlike Require, a
// missing form does not fail the obligation: it is reported as
// UNRECOGNISED and recorded in the evidence.
func (o *Ob) Shape(cond bool, format string, args ...any) bool {
	o.Evals++
	if !cond && Strict() {
		o.Fail(format, args...)
		return cond
	}
	if !cond && len(o.Unrecognised) < 20 {
		o.Unrecognised = append(o.Unrecognised, fmt.Sprintf(format, args...))
	}
	return cond
}

// Fail marks the obligation violated.
func (o *Ob) Fail(format string, args ...any) {
	o.Status = Violated
	msg := fmt.Sprintf(format, args...)
	if o.Detail == "" {
		o.Detail = msg
	} else {
		o.Detail += "; " + msg
	}
}

// FailAt marks the obligation violated at a site.
func (o *Ob) FailAt(s Site, format string, args ...any) {
	o.Sites = append(o.Sites, s)
	o.Fail("%s: %s", s.Pos, fmt.Sprintf(format, args...))
}

// Require fails the obligation unless cond holds.
func (o *Ob) Require(cond bool, format string, args ...any) bool {
	o.Evals++
	if !cond {
		o.Fail(format, args...)
	}
	return cond
}

// At records a site that was inspected.
func (o *Ob) At(s Site) { o.Sites = append(o.Sites, s); o.Evals++ }

// Count adds inspected constructs.
func (o *Ob) Count(n int) { o.Evals += n }

// Fact records a fact extracted from the code (goes into evidence).
func (o *Ob) Fact(format string, args ...any) {
	if len(o.Facts) < 40 {
		o.Facts = append(o.Facts, fmt.Sprintf(format, args...))
	}
}

// Ctx is the state of one property check.
type Ctx struct {
	Prop        string
	Tier        string
	Seed        int64
	Prog        *Program
	Obs         []*Ob
	floor       map[string]int
	start       time.Time
	Notes       []string
	VerifDir    string
	Explanation string
	Assumptions []string
	TrustedBase []string
	Census      map[string]int
	floorsDone  bool
	staleNoted  bool
	renOnce     sync.Once
	renamed     map[string][]string
}

// ProcessStart is the time the checker started (includes loading).
var ProcessStart = time.Now()

// NewCtx creates a context.
func NewCtx(prop, tier string, prog *Program) *Ctx {
	seed, _ := strconv.ParseInt(os.Getenv("VERIF_SEED"), 10, 64)
	vd := os.Getenv("PDFVERIF_DIR")
	if vd == "" {
		vd, _ = os.Getwd()
	}
	return &Ctx{Prop: prop, Tier: tier, Seed: seed, Prog: prog, floor: map[string]int{}, start: ProcessStart, VerifDir: vd, Census: map[string]int{}}
}

// Check runs one obligation.  Panics inside f (unresolved anchors,
// recognisers giving up, analyser bugs) make the obligation undecided,
// which fails the check: a rule that cannot look at its construct must
// not pass.
func (c *Ctx) Check(rule, key, desc string, f func(o *Ob)) *Ob {
	o := &Ob{Rule: rule, Key: key, Desc: desc, Status: Discharged}
	o.ruleFns = ruleFrames(3)
	c.Obs = append(c.Obs, o)
	func() {
		defer func() {
			if r := recover(); r != nil {
				switch e := r.(type) {
				case AnchorError:
					c.giveUp(o, e.Error())
				case UndecidedError:
					c.giveUp(o, e.Error())
				default:
					o.Status = StUndecided
					o.Detail = fmt.Sprintf("analyser panic: %v\n%s", r, trimStack(debug.Stack()))
				}
			}
		}()
		f(o)
	}()
	c.vocabGuard(o)
	if o.Status == Discharged && o.Evals == 0 && len(o.Unrecognised) == 0 {
		c.giveUp(o, "rule inspected no construct (vacuous)")
	}
	// An obligation that looks at far fewer constructs than it did on the
	// reviewed tree may be passing over an empty set (the call sites it
	// collects became a table, say).  That is not a violation, but it is not
	// a decision either.
	if n0 := c.confirmedCount(rule, key); o.Status == Discharged && n0 >= 2 && o.Evals*2 < n0 && len(o.Unrecognised) == 0 && os.Getenv("PDFVERIF_WRITE_COUNTS") == "" {
		c.giveUp(o, fmt.Sprintf("inspected %d constructs where %d were inspected on the reviewed tree: part of what this rule decides may have moved out of its sight", o.Evals, n0))
	}
	return o
}

// vocabGuard: a failure of a rule whose vocabulary was renamed since the
// reviewed tree is not a decision (see vocab.go).
func (c *Ctx) vocabGuard(o *Ob) {
	if o.Status != Violated || Strict() {
		return
	}
	ren := c.vocabRenamed(o.ruleFns)
	if len(ren) == 0 {
		return
	}
	if len(ren) > 6 {
		ren = append(ren[:6:6], fmt.Sprintf("and %d more", len(ren)-6))
	}
	o.Unrecognised = append(o.Unrecognised, fmt.Sprintf("names this rule looks for were renamed since the reviewed tree (%s), so what it finds in their place is not a decision; it reported: %s", strings.Join(ren, ", "), o.Detail))
	o.Status = Discharged
	o.Detail = ""
}

var (
	confirmedOnce sync.Once
	confirmed     map[string]map[string]int
)

// confirmedCount returns the number of constructs the obligation inspected
// on the reviewed tree (confirmed-counts.json, written by tools/gencounts.sh
// and committed; never written by a check).
func (c *Ctx) confirmedCount(rule, key string) int {
	confirmedOnce.Do(func() {
		b, err := os.ReadFile(filepath.Join(c.VerifDir, "confirmed-counts.json"))
		if err != nil {
			return
		}
		_ = json.Unmarshal(b, &confirmed)
	})
	if confirmed == nil {
		return 0
	}
	return confirmed[c.Prop][rule+"|"+key]
}

// WriteCounts merges the construct counts of this run into the given file
// (used by tools/gencounts.sh only).
func (c *Ctx) WriteCounts(path string) error {
	all := map[string]map[string]int{}
	if b, err := os.ReadFile(path); err == nil {
		_ = json.Unmarshal(b, &all)
	}
	m := map[string]int{}
	for _, o := range c.Obs {
		if o.Status == Discharged && len(o.Unrecognised) == 0 {
			m[o.Rule+"|"+o.Key] = o.Evals
		}
	}
	all[c.Prop] = m
	b, err := json.MarshalIndent(all, "", " ")
	if err != nil {
		return err
	}
	return os.WriteFile(path, b, 0o644)
}

// Strict reports whether a recogniser that does not find its construct
// fails the check (PDFVERIF_STRICT=1, the policy of the first four rounds).
// By default it does not: the construct may have been rewritten without a
// change of behaviour, and "I do not recognise this" is not evidence of a
// violation.  It is printed as UNRECOGNISED and recorded in the evidence;
// the obligation then decides nothing about that construct.  Analyser
// panics, load and type-check failures, and rules that match no instance
// at all still fail.
func Strict() bool { return os.Getenv("PDFVERIF_STRICT") != "" }

func (c *Ctx) giveUp(o *Ob, msg string) {
	if Strict() {
		o.Status = StUndecided
		if o.Detail == "" {
			o.Detail = msg
		} else {
			o.Detail += "; " + msg
		}
		return
	}
	o.Unrecognised = append(o.Unrecognised, msg)
}

func trimStack(b []byte) string {
	lines := strings.Split(string(b), "\n")
	var keep []string
	for _, l := range lines {
		if strings.Contains(l, "pdfverif/") || strings.Contains(l, "/verif/") {
			keep = append(keep, strings.TrimSpace(l))
		}
		if len(keep) > 8 {
			break
		}
	}
	return strings.Join(keep, " | ")
}

// Floor declares the minimum number of obligations a rule must produce.
func (c *Ctx) Floor(rule string, n int) { c.floor[rule] = n }

// ApplyFloors appends an undecided obligation for every rule whose instance
// count is below its floor (idempotent).
func (c *Ctx) ApplyFloors() {
	if c.floorsDone {
		return
	}
	c.floorsDone = true
	counts := map[string]int{}
	for _, o := range c.Obs {
		counts[o.Rule]++
	}
	var rules []string
	for r := range c.floor {
		rules = append(rules, r)
	}
	sort.Strings(rules)
	for _, r := range rules {
		if counts[r] < c.floor[r] {
			ob := &Ob{Rule: r, Key: "instance-floor", Desc: "rule must find at least the instances confirmed by hand", Status: Discharged, Evals: counts[r]}
			msg := fmt.Sprintf("found %d instances, floor is %d", counts[r], c.floor[r])
			if Strict() {
				ob.Status = StUndecided
				ob.Detail = msg
			} else if counts[r] == 0 {
				// a rule that matches nothing decides nothing: said loudly, but the code that
				// made its constructs unrecognisable may be a harmless rewrite (a function that
				// now returns a struct instead of two values), so it is not a violation
				ob.Unrecognised = []string{msg + ": the rule found none of its constructs and decides nothing on this tree"}
			} else {
				ob.Unrecognised = []string{msg + " (fewer instances than on the reviewed tree: some may have been merged or rewritten)"}
			}
			c.Obs = append(c.Obs, ob)
		}
	}
}

// KnownKeys returns "rule|key" for every listed known finding of this property.
func (c *Ctx) KnownKeys() []string {
	known, _ := loadKnown(c.VerifDir)
	var out []string
	for _, k := range known {
		if k.Prop == c.Prop {
			out = append(out, k.Rule+"|"+k.Key)
		}
	}
	return out
}

// known findings ---------------------------------------------------------

type knownFinding struct {
	Prop, Rule, Key, What string
}

func loadKnown(dir string) ([]knownFinding, error) {
	f, err := os.Open(filepath.Join(dir, "known-findings.txt"))
	if err != nil {
		if os.IsNotExist(err) {
			return nil, nil
		}
		return nil, err
	}
	defer f.Close()
	var out []knownFinding
	sc := bufio.NewScanner(f)
	for sc.Scan() {
		line := strings.TrimSpace(sc.Text())
		if !strings.HasPrefix(line, "finding:") {
			continue
		}
		rest := strings.TrimSpace(strings.TrimPrefix(line, "finding:"))
		what := ""
		if i := strings.Index(rest, "::"); i >= 0 {
			what = strings.TrimSpace(rest[i+2:])
			rest = strings.TrimSpace(rest[:i])
		}
		k := knownFinding{What: what}
		for _, fld := range strings.Fields(rest) {
			switch {
			case strings.HasPrefix(fld, "property="):
				k.Prop = fld[len("property="):]
			case strings.HasPrefix(fld, "rule="):
				k.Rule = fld[len("rule="):]
			case strings.HasPrefix(fld, "key="):
				k.Key = fld[len("key="):]
			}
		}
		if k.Prop != "" && k.Rule != "" && k.Key != "" {
			out = append(out, k)
		}
	}
	return out, sc.Err()
}

// Finish evaluates floors, writes evidence and violation files, prints the
// verdict lines and returns the process exit code.
func (c *Ctx) Finish() int {
	c.ApplyFloors()

	known, kerr := loadKnown(c.VerifDir)
	if kerr != nil {
		fmt.Printf("ERROR reading known-findings.txt: %v\n", kerr)
	}
	outDir := filepath.Join(c.VerifDir, "out", "violations")
	os.MkdirAll(outDir, 0o755)
	// remove stale replay files of this property
	if old, _ := filepath.Glob(filepath.Join(outDir, c.Prop+"-*.json")); old != nil {
		for _, f := range old {
			os.Remove(f)
		}
	}

	nViol, nUndec, nKnown, nDis := 0, 0, 0, 0
	nUnrec := 0
	for _, o := range c.Obs {
		if len(o.Unrecognised) > 0 {
			nUnrec++
			fmt.Printf("UNRECOGNISED rule=%s key=%s\n    %s\n", o.Rule, o.Key, strings.Join(o.Unrecognised, "; "))
		}
	}
	evals := 0
	nontrivial := map[string]bool{}
	byRule := map[string]int{}
	for _, o := range c.Obs {
		evals += o.Evals
		byRule[o.Rule]++
		if o.Evals > 0 {
			nontrivial[o.Rule+"|"+o.Key] = true
		}
		switch o.Status {
		case Discharged:
			nDis++
			if os.Getenv("PDFVERIF_VERBOSE") != "" {
				fmt.Printf("discharged rule=%s key=%s evals=%d facts=%v\n", o.Rule, o.Key, o.Evals, o.Facts)
			}
			continue
		}
		if o.Status == Violated {
			isKnown := false
			for _, k := range known {
				if k.Prop == c.Prop && k.Rule == o.Rule && k.Key == o.Key {
					isKnown = true
					fmt.Printf("KNOWN-FINDING: property=%s rule=%s key=%s %s\n", c.Prop, o.Rule, o.Key, k.What)
				}
			}
			if isKnown {
				o.known = true
				nKnown++
				continue
			}
		}
		n := nViol + nUndec + 1
		path := filepath.Join(outDir, fmt.Sprintf("%s-%d.json", c.Prop, n))
		rec := map[string]any{
			"property": c.Prop, "rule": o.Rule, "key": o.Key, "rule_text": o.Desc,
			"status": o.Status, "detail": o.Detail, "sites": o.Sites, "facts": o.Facts,
			"repo": c.Prog.Dir,
		}
		b, _ := json.MarshalIndent(rec, "", " ")
		os.WriteFile(path, b, 0o644)
		if o.Status == Violated {
			nViol++
		} else {
			nUndec++
		}
		fmt.Printf("%s rule=%s key=%s\n    %s\n", strings.ToUpper(string(o.Status)), o.Rule, o.Key, o.Detail)
		for i, s := range o.Sites {
			if i >= 6 {
				break
			}
			fmt.Printf("    at %s %s %s\n", s.Pos, s.Func, s.Note)
		}
		fmt.Printf("VIOLATION property=%s replay=%s\n", c.Prop, path)
	}

	// evidence
	var samples []any
	perRuleSample := map[string]int{}
	for _, o := range c.Obs {
		if perRuleSample[o.Rule] >= 2 || len(samples) >= 40 {
			continue
		}
		perRuleSample[o.Rule]++
		s := map[string]any{"rule": o.Rule, "construct": o.Key, "obligation": o.Desc, "status": o.Status, "constructs_inspected": o.Evals}
		if len(o.Sites) > 0 {
			ss := o.Sites
			if len(ss) > 4 {
				ss = ss[:4]
			}
			s["sites"] = ss
		}
		if len(o.Facts) > 0 {
			ff := o.Facts
			if len(ff) > 6 {
				ff = ff[:6]
			}
			s["facts"] = ff
		}
		if o.Detail != "" {
			s["detail"] = o.Detail
		}
		if len(o.Unrecognised) > 0 {
			s["unrecognised"] = o.Unrecognised
		}
		samples = append(samples, s)
	}
	floors := map[string]int{}
	for k, v := range c.floor {
		floors[k] = v
	}
	wall := time.Since(c.start).Seconds()
	cov := map[string]any{
		"explanation":         c.Explanation,
		"obligations":         len(c.Obs),
		"discharged":          nDis,
		"known_findings":      nKnown,
		"undecided":           nUndec,
		"unrecognised_forms":  nUnrec,
		"evaluations":         evals,
		"distinct_nontrivial": len(nontrivial),
		"rule":                "one obligation = one static rule applied to one construct (function, table, call site, field) of /repo's current source, keyed rule|construct; non-trivial = the rule actually inspected at least one AST/CFG/SSA construct for it; evaluations = number of constructs inspected",
		"samples":             samples,
		"instances_by_rule":   byRule,
		"floors":              floors,
		"trusted_base":        c.TrustedBase,
		"checker_cmd":         "./pv check " + c.Prop + " " + c.Tier,
		"exhaustive":          true,
		"repo":                c.Prog.Dir,
		"build":               c.Prog.BuildDesc,
		"packages_loaded":     len(c.Prog.RepoPkgs()),
	}
	if len(c.Census) > 0 {
		cov["census"] = c.Census
	}
	if len(c.Notes) > 0 {
		cov["notes"] = c.Notes
	}
	ev := map[string]any{
		"property_id": c.Prop,
		"tier":        c.Tier,
		"seed":        c.Seed,
		"level":       "other",
		"coverage":    cov,
		"assumptions": c.Assumptions,
		"wall_s":      wall,
		"violations":  nViol + nUndec,
	}
	b, _ := json.MarshalIndent(ev, "", " ")
	evDir := filepath.Join(c.VerifDir, "evidence")
	if RepoDir() != "/repo" {
		// a scratch copy is being analysed: the committed evidence describes /repo
		evDir = filepath.Join(os.TempDir(), "pdfverif-scratch-evidence")
	}
	os.MkdirAll(evDir, 0o755)
	if err := os.WriteFile(filepath.Join(evDir, c.Prop+".json"), b, 0o644); err != nil {
		fmt.Printf("ERROR writing evidence: %v\n", err)
		return 2
	}
	fmt.Printf("%s %s: %d obligations, %d discharged, %d known findings, %d violated, %d undecided, %d constructs inspected, %.1fs\n",
		c.Prop, c.Tier, len(c.Obs), nDis, nKnown, nViol, nUndec, evals, wall)
	if nUnrec > 0 {
		fmt.Printf("%s %s: %d obligations met a construct in a form they do not recognise (not decided, not failed)\n", c.Prop, c.Tier, nUnrec)
	}
	if nViol+nUndec > 0 {
		return 1
	}
	return 0
}
