package core

import (
	"go/ast"
	"go/constant"
	"go/token"
	"go/types"
	"sync"
)

// Lookup tables of a lexer or encoder are constants of the program even
// when they are not written as a literal: "var hexValue = makeTable()" with
// a function that fills an array in loops over constant bounds.  ConstTable
// folds such an initialiser: a composite literal of constants, or a call of
// a parameterless repository function whose body consists of declarations,
// loops with constant bounds, conditionals on folded values, stores into
// local arrays and a return.  Anything else is "not a constant table".

var (
	tableMu    sync.Mutex
	tableCache = map[types.Object][]int64{}
	tableTried = map[types.Object]bool{}
)

// ConstTableOf returns the folded contents of a package-level array or
// slice variable, or nil.
func (p *Program) ConstTableOf(obj types.Object) []int64 {
	v, ok := obj.(*types.Var)
	if !ok || v.Pkg() == nil || v.Parent() != v.Pkg().Scope() {
		return nil
	}
	tableMu.Lock()
	defer tableMu.Unlock()
	return p.constTableOfLocked(obj, v)
}

// constTableOfLocked does the work of ConstTableOf with tableMu held (a table
// may be computed from another table of the package).
func (p *Program) constTableOfLocked(obj types.Object, v *types.Var) []int64 {
	if tableTried[obj] {
		return tableCache[obj]
	}
	tableTried[obj] = true
	pkg := p.Pkgs[v.Pkg().Path()]
	if pkg == nil {
		return nil
	}
	var init ast.Expr
	for _, f := range pkg.Syntax {
		for _, d := range f.Decls {
			gd, ok := d.(*ast.GenDecl)
			if !ok || gd.Tok != token.VAR {
				continue
			}
			for _, sp := range gd.Specs {
				vs, ok := sp.(*ast.ValueSpec)
				if !ok || len(vs.Values) != len(vs.Names) {
					continue
				}
				for i, n := range vs.Names {
					if pkg.TypesInfo.Defs[n] == obj {
						init = vs.Values[i]
					}
				}
			}
		}
	}
	if init == nil {
		return nil
	}
	info := pkg.TypesInfo
	var out []int64
	func() {
		defer func() {
			if r := recover(); r != nil {
				out = nil
			}
		}()
		switch x := ast.Unparen(init).(type) {
		case *ast.CompositeLit:
			out = IntTableOfLit(info, x, obj.Name())
		case *ast.CallExpr:
			if len(x.Args) != 0 {
				return
			}
			if lit, isLit := ast.Unparen(x.Fun).(*ast.FuncLit); isLit {
				// var t = func() (t [256]byte) { ... }()
				out = foldTableBodyWith(info, lit.Type, lit.Body, func(o types.Object) []int64 {
					if gv, isVar := o.(*types.Var); isVar && gv.Pkg() != nil && gv.Parent() == gv.Pkg().Scope() {
						return p.constTableOfLocked(o, gv)
					}
					return nil
				})
				return
			}
			fn := p.funcOfUnlocked(Callee(info, x))
			if fn == nil || fn.Decl.Body == nil {
				return
			}
			out = foldTableFunc(fn)
		}
	}()
	tableCache[obj] = out
	return out
}

func (p *Program) funcOfUnlocked(obj *types.Func) *Func {
	if obj == nil {
		return nil
	}
	return p.FuncOf(obj)
}

type foldVal struct {
	n   int64
	arr []int64
	ok  bool
}

type folder struct {
	info   *types.Info
	env    map[types.Object]*foldVal
	steps  int
	ret    *foldVal
	fail   bool
	global func(types.Object) []int64 // package-level tables the body may read
}

// foldTableFunc interprets a parameterless function that builds and returns
// an array of integers.
func foldTableFunc(fn *Func) []int64 {
	sig := fn.Obj.Type().(*types.Signature)
	if sig.Params().Len() != 0 || sig.Results().Len() != 1 {
		return nil
	}
	return foldTableBody(fn.Info(), fn.Decl.Type, fn.Decl.Body)
}

// foldTableBody interprets the body of a parameterless function (declared or
// literal) with one result.
func foldTableBody(info *types.Info, ft *ast.FuncType, body *ast.BlockStmt) []int64 {
	return foldTableBodyWith(info, ft, body, nil)
}

// foldTableBodyWith is foldTableBody with a resolver for package-level
// tables the body reads.
func foldTableBodyWith(info *types.Info, ft *ast.FuncType, body *ast.BlockStmt, global func(types.Object) []int64) []int64 {
	f := &folder{info: info, env: map[types.Object]*foldVal{}, global: global}
	if ft.Params != nil && len(ft.Params.List) != 0 {
		return nil
	}
	if ft.Results == nil || len(ft.Results.List) != 1 || len(ft.Results.List[0].Names) > 1 {
		return nil
	}
	// named result
	var named types.Object
	if ft.Results != nil {
		for _, fl := range ft.Results.List {
			for _, n := range fl.Names {
				named = f.info.ObjectOf(n)
				f.env[named] = f.zero(named.Type())
			}
		}
	}
	f.block(body.List)
	if f.fail {
		return nil
	}
	if f.ret == nil && named != nil {
		f.ret = f.env[named]
	}
	if f.ret == nil || f.ret.arr == nil {
		return nil
	}
	return f.ret.arr
}

func (f *folder) zero(t types.Type) *foldVal {
	switch u := t.Underlying().(type) {
	case *types.Array:
		if u.Len() > 1<<16 {
			f.fail = true
			return &foldVal{}
		}
		return &foldVal{arr: make([]int64, u.Len()), ok: true}
	case *types.Basic:
		if u.Info()&(types.IsInteger|types.IsBoolean) != 0 {
			return &foldVal{ok: true}
		}
	}
	return &foldVal{}
}

func (f *folder) block(list []ast.Stmt) {
	for _, s := range list {
		if f.fail || f.ret != nil {
			return
		}
		f.stmt(s)
	}
}

func (f *folder) tick() {
	f.steps++
	if f.steps > 200000 {
		f.fail = true
	}
}

func (f *folder) stmt(s ast.Stmt) {
	f.tick()
	switch x := s.(type) {
	case *ast.BlockStmt:
		f.block(x.List)
	case *ast.DeclStmt:
		gd, ok := x.Decl.(*ast.GenDecl)
		if !ok || (gd.Tok != token.VAR && gd.Tok != token.CONST) {
			f.fail = true
			return
		}
		if gd.Tok == token.CONST {
			return
		}
		for _, sp := range gd.Specs {
			vs := sp.(*ast.ValueSpec)
			for i, n := range vs.Names {
				obj := f.info.ObjectOf(n)
				if len(vs.Values) == len(vs.Names) {
					v := f.expr(vs.Values[i])
					f.env[obj] = &v
				} else {
					f.env[obj] = f.zero(obj.Type())
				}
			}
		}
	case *ast.AssignStmt:
		if len(x.Lhs) != len(x.Rhs) {
			f.fail = true
			return
		}
		for i, l := range x.Lhs {
			r := f.expr(x.Rhs[i])
			if x.Tok != token.ASSIGN && x.Tok != token.DEFINE {
				old := f.expr(l)
				op := map[token.Token]token.Token{token.ADD_ASSIGN: token.ADD, token.SUB_ASSIGN: token.SUB, token.OR_ASSIGN: token.OR, token.AND_ASSIGN: token.AND, token.SHL_ASSIGN: token.SHL, token.SHR_ASSIGN: token.SHR, token.MUL_ASSIGN: token.MUL}[x.Tok]
				if op == 0 {
					f.fail = true
					return
				}
				r = f.binop(op, old, r)
			}
			if !r.ok {
				f.fail = true
				return
			}
			f.assign(l, r)
		}
	case *ast.IncDecStmt:
		old := f.expr(x.X)
		if !old.ok {
			f.fail = true
			return
		}
		if x.Tok == token.INC {
			old.n++
		} else {
			old.n--
		}
		f.assign(x.X, old)
	case *ast.IfStmt:
		if x.Init != nil {
			f.stmt(x.Init)
		}
		c := f.expr(x.Cond)
		if !c.ok {
			f.fail = true
			return
		}
		if c.n != 0 {
			f.block(x.Body.List)
		} else if x.Else != nil {
			f.stmt(x.Else)
		}
	case *ast.ForStmt:
		if x.Init != nil {
			f.stmt(x.Init)
		}
		for !f.fail && f.ret == nil {
			f.tick()
			if x.Cond != nil {
				c := f.expr(x.Cond)
				if !c.ok {
					f.fail = true
					return
				}
				if c.n == 0 {
					break
				}
			}
			f.block(x.Body.List)
			if x.Post != nil {
				f.stmt(x.Post)
			}
		}
	case *ast.RangeStmt:
		n := int64(-1)
		var arr []int64
		if tv, ok := f.info.Types[x.X]; ok && tv.Value != nil {
			if k, exact := constant.Int64Val(constant.ToInt(tv.Value)); exact {
				n = k
			}
		} else {
			v := f.expr(x.X)
			if v.arr != nil {
				arr = v.arr
				n = int64(len(arr))
			} else if v.ok {
				n = v.n
			}
		}
		if n < 0 {
			f.fail = true
			return
		}
		for i := int64(0); i < n && !f.fail && f.ret == nil; i++ {
			f.tick()
			if id, ok := x.Key.(*ast.Ident); ok && id.Name != "_" {
				f.env[f.info.ObjectOf(id)] = &foldVal{n: i, ok: true}
			}
			if id, ok := x.Value.(*ast.Ident); ok && id.Name != "_" && arr != nil {
				f.env[f.info.ObjectOf(id)] = &foldVal{n: arr[i], ok: true}
			}
			f.block(x.Body.List)
		}
	case *ast.ReturnStmt:
		if len(x.Results) == 0 {
			f.ret = &foldVal{}
			for _, v := range f.env {
				if v.arr != nil {
					f.ret = v
				}
			}
			return
		}
		if len(x.Results) != 1 {
			f.fail = true
			return
		}
		v := f.expr(x.Results[0])
		f.ret = &v
	case *ast.EmptyStmt:
	default:
		f.fail = true
	}
}

func (f *folder) assign(l ast.Expr, r foldVal) {
	switch x := ast.Unparen(l).(type) {
	case *ast.Ident:
		if x.Name == "_" {
			return
		}
		obj := f.info.ObjectOf(x)
		if r.arr != nil {
			cp := append([]int64{}, r.arr...)
			f.env[obj] = &foldVal{arr: cp, ok: true}
		} else {
			f.env[obj] = &foldVal{n: f.wrap(r.n, obj.Type()), ok: true}
		}
	case *ast.IndexExpr:
		base, ok := ast.Unparen(x.X).(*ast.Ident)
		if !ok {
			f.fail = true
			return
		}
		a := f.env[f.info.ObjectOf(base)]
		i := f.expr(x.Index)
		if a == nil || a.arr == nil || !i.ok || i.n < 0 || i.n >= int64(len(a.arr)) {
			f.fail = true
			return
		}
		et := f.info.TypeOf(l)
		a.arr[i.n] = f.wrap(r.n, et)
	default:
		f.fail = true
	}
}

// wrap reduces a value to the range of a small unsigned type.
func (f *folder) wrap(n int64, t types.Type) int64 {
	if t == nil {
		return n
	}
	if b, ok := t.Underlying().(*types.Basic); ok {
		switch b.Kind() {
		case types.Uint8:
			return n & 0xff
		case types.Uint16:
			return n & 0xffff
		case types.Uint32:
			return n & 0xffffffff
		case types.Int8:
			return int64(int8(n))
		}
	}
	return n
}

func (f *folder) expr(e ast.Expr) foldVal {
	f.tick()
	e = ast.Unparen(e)
	if tv, ok := f.info.Types[e]; ok && tv.Value != nil {
		switch tv.Value.Kind() {
		case constant.Int:
			if n, exact := constant.Int64Val(tv.Value); exact {
				return foldVal{n: n, ok: true}
			}
		case constant.Bool:
			if constant.BoolVal(tv.Value) {
				return foldVal{n: 1, ok: true}
			}
			return foldVal{ok: true}
		}
	}
	switch x := e.(type) {
	case *ast.Ident:
		if v := f.env[f.info.ObjectOf(x)]; v != nil {
			return *v
		}
		if f.global != nil {
			if t := f.global(f.info.ObjectOf(x)); t != nil {
				return foldVal{arr: t, ok: true}
			}
		}
	case *ast.IndexExpr:
		a := f.expr(x.X)
		i := f.expr(x.Index)
		if a.arr != nil && i.ok && i.n >= 0 && i.n < int64(len(a.arr)) {
			return foldVal{n: a.arr[i.n], ok: true}
		}
	case *ast.BinaryExpr:
		return f.binop(x.Op, f.expr(x.X), f.expr(x.Y))
	case *ast.UnaryExpr:
		v := f.expr(x.X)
		if !v.ok {
			return foldVal{}
		}
		switch x.Op {
		case token.SUB:
			return foldVal{n: -v.n, ok: true}
		case token.NOT:
			if v.n == 0 {
				return foldVal{n: 1, ok: true}
			}
			return foldVal{ok: true}
		case token.XOR:
			return foldVal{n: ^v.n, ok: true}
		}
	case *ast.CallExpr:
		if len(x.Args) == 1 {
			if tv, ok := f.info.Types[x.Fun]; ok && tv.IsType() {
				v := f.expr(x.Args[0])
				if v.ok && v.arr == nil {
					return foldVal{n: f.wrap(v.n, tv.Type), ok: true}
				}
			}
			if id, ok := ast.Unparen(x.Fun).(*ast.Ident); ok {
				if b, ok := f.info.Uses[id].(*types.Builtin); ok && b.Name() == "len" {
					v := f.expr(x.Args[0])
					if v.arr != nil {
						return foldVal{n: int64(len(v.arr)), ok: true}
					}
				}
			}
		}
	}
	return foldVal{}
}

func (f *folder) binop(op token.Token, l, r foldVal) foldVal {
	if !l.ok || !r.ok || l.arr != nil || r.arr != nil {
		return foldVal{}
	}
	b := func(c bool) foldVal {
		if c {
			return foldVal{n: 1, ok: true}
		}
		return foldVal{ok: true}
	}
	switch op {
	case token.ADD:
		return foldVal{n: l.n + r.n, ok: true}
	case token.SUB:
		return foldVal{n: l.n - r.n, ok: true}
	case token.MUL:
		return foldVal{n: l.n * r.n, ok: true}
	case token.QUO:
		if r.n != 0 {
			return foldVal{n: l.n / r.n, ok: true}
		}
	case token.REM:
		if r.n != 0 {
			return foldVal{n: l.n % r.n, ok: true}
		}
	case token.AND:
		return foldVal{n: l.n & r.n, ok: true}
	case token.OR:
		return foldVal{n: l.n | r.n, ok: true}
	case token.XOR:
		return foldVal{n: l.n ^ r.n, ok: true}
	case token.SHL:
		if r.n >= 0 && r.n < 63 {
			return foldVal{n: l.n << uint(r.n), ok: true}
		}
	case token.SHR:
		if r.n >= 0 && r.n < 63 {
			return foldVal{n: l.n >> uint(r.n), ok: true}
		}
	case token.EQL:
		return b(l.n == r.n)
	case token.NEQ:
		return b(l.n != r.n)
	case token.LSS:
		return b(l.n < r.n)
	case token.LEQ:
		return b(l.n <= r.n)
	case token.GTR:
		return b(l.n > r.n)
	case token.GEQ:
		return b(l.n >= r.n)
	case token.LAND:
		return b(l.n != 0 && r.n != 0)
	case token.LOR:
		return b(l.n != 0 || r.n != 0)
	}
	return foldVal{}
}

// keyed by the variable object (unique per loaded program: the self-test loads
// many variants of the repository in one process) and the field name
var fieldTableCache = map[types.Object]map[string][]int64{}

// ConstFieldTableOf returns, for a package-level array or slice of structs
// initialised by a composite literal of constants, the table of one field
// (missing elements and fields are zero); nil when the initialiser is not of
// that form.
func (p *Program) ConstFieldTableOf(obj types.Object, field string) []int64 {
	v, ok := obj.(*types.Var)
	if !ok || v.Pkg() == nil || v.Parent() != v.Pkg().Scope() {
		return nil
	}
	tableMu.Lock()
	defer tableMu.Unlock()
	if m, ok := fieldTableCache[obj]; ok {
		if t, ok := m[field]; ok {
			return t
		}
	} else {
		fieldTableCache[obj] = map[string][]int64{}
	}
	fieldTableCache[obj][field] = nil
	pkg := p.Pkgs[v.Pkg().Path()]
	if pkg == nil {
		return nil
	}
	info := pkg.TypesInfo
	var init ast.Expr
	for _, f := range pkg.Syntax {
		for _, d := range f.Decls {
			gd, ok := d.(*ast.GenDecl)
			if !ok || gd.Tok != token.VAR {
				continue
			}
			for _, sp := range gd.Specs {
				vs, ok := sp.(*ast.ValueSpec)
				if !ok || len(vs.Values) != len(vs.Names) {
					continue
				}
				for i, n := range vs.Names {
					if info.Defs[n] == obj {
						init = vs.Values[i]
					}
				}
			}
		}
	}
	lit, ok := ast.Unparen(init).(*ast.CompositeLit)
	if init == nil || !ok {
		return nil
	}
	var elem types.Type
	n := int64(-1)
	switch t := v.Type().Underlying().(type) {
	case *types.Array:
		elem, n = t.Elem(), t.Len()
	case *types.Slice:
		elem = t.Elem()
	default:
		return nil
	}
	st, ok := elem.Underlying().(*types.Struct)
	if !ok {
		return nil
	}
	fidx := -1
	for i := 0; i < st.NumFields(); i++ {
		if st.Field(i).Name() == field {
			fidx = i
		}
	}
	if fidx < 0 {
		return nil
	}
	vals := map[int64]int64{}
	idx, max := int64(0), int64(-1)
	for _, el := range lit.Elts {
		val := el
		if kv, ok := el.(*ast.KeyValueExpr); ok {
			k, ok := IntConst(info, kv.Key)
			if !ok {
				return nil
			}
			idx, val = k, kv.Value
		}
		cl, ok := ast.Unparen(val).(*ast.CompositeLit)
		if !ok {
			return nil
		}
		for j, fe := range cl.Elts {
			fv := fe
			match := j == fidx
			if kv, ok := fe.(*ast.KeyValueExpr); ok {
				id, isID := kv.Key.(*ast.Ident)
				match = isID && id.Name == field
				fv = kv.Value
			}
			if !match {
				continue
			}
			k, ok := IntConst(info, fv)
			if !ok {
				if tv, has := info.Types[fv]; has && tv.Value != nil && tv.Value.Kind() == constant.Bool {
					if constant.BoolVal(tv.Value) {
						k = 1
					}
				} else {
					return nil
				}
			}
			vals[idx] = k
		}
		if idx > max {
			max = idx
		}
		idx++
	}
	if n < 0 {
		n = max + 1
	}
	if n > 1<<16 {
		return nil
	}
	out := make([]int64, n)
	for k, x := range vals {
		if k >= 0 && k < n {
			out[k] = x
		}
	}
	fieldTableCache[obj][field] = out
	return out
}
