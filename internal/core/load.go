// Package core holds the shared machinery of the go-pdf static checker:
// loading the type-checked program, addressing constructs by
// position-free keys, node-level control-flow queries, and reporting.
package core

import (
	"fmt"
	"go/ast"
	"go/constant"
	"go/token"
	"go/types"
	"os"
	"path/filepath"
	"reflect"
	"sort"
	"strings"
	"sync"

	"golang.org/x/tools/go/packages"
)

// ModulePath is the module path of the analysed repository.
const ModulePath = "seehuhn.de/go/pdf"

// Program is the loaded, type-checked repository.
type Program struct {
	Dir   string
	Fset  *token.FileSet
	Roots []*packages.Package
	Pkgs  map[string]*packages.Package // by PkgPath, includes dependencies

	mu        sync.Mutex
	funcs     map[string]*Func // cache by key
	allFns    map[*packages.Package][]*Func
	ssa       *SSAProgram
	BuildDesc string

	// InlineKeep, when non-nil, makes Func and FuncOpt return the normalised
	// form of anchor functions: calls of small helpers of the same package
	// are inlined, except calls of the functions listed here (key suffixes).
	InlineKeep []string

	// GuessedNames: locals that RestoreLocalNames paired by position only
	// (name -> owners); RestoredNames counts all restored names.
	GuessedNames  map[string][]string
	RestoredNames int

	refCount map[*types.Func]int
	refDone  map[string]bool
}

// Func is a function or method declared in the repository.
type Func struct {
	Prog *Program
	Pkg  *packages.Package
	Decl *ast.FuncDecl
	Obj  *types.Func
	Key  string // e.g. pdf.(*Writer).Put or pdf/internal/filter/lzw.NewReader

	cfgOnce sync.Once
	graph   *Graph

	inlMu     sync.Mutex
	inlinedBy map[string]*Func
	// InlinedCalls is the number of calls inlined into this copy (0 for
	// functions as declared).
	InlinedCalls int
}

// RepoDir returns the directory of the repository under analysis.
func RepoDir() string {
	if d := os.Getenv("PDFVERIF_REPO"); d != "" {
		return d
	}
	return "/repo"
}

// GoEnv returns the environment used for every invocation of the go command.
func GoEnv(extra ...string) []string {
	env := []string{}
	for _, kv := range os.Environ() {
		k := kv
		if i := strings.IndexByte(kv, '='); i >= 0 {
			k = kv[:i]
		}
		switch k {
		case "GOWORK", "GOFLAGS", "GOPROXY", "GOSUMDB", "GOTOOLCHAIN", "GOOS", "GOARCH", "PATH", "CGO_ENABLED":
			continue
		}
		env = append(env, kv)
	}
	path := os.Getenv("PATH")
	const newgo = "/opt/veriftools/go1.26.8/bin"
	if _, err := os.Stat(newgo); err == nil && !strings.HasPrefix(path, newgo+":") {
		path = newgo + ":" + path
		// go/packages looks the go command up in this process's PATH
		os.Setenv("PATH", path)
	}
	env = append(env,
		"PATH="+path,
		"GOWORK=off",
		"GOFLAGS=-mod=mod",
		"GOPROXY=off",
		"GOSUMDB=off",
		"GOTOOLCHAIN=local",
		"CGO_ENABLED=0",
	)
	env = append(env, extra...)
	return env
}

// Load loads the given package patterns (relative to the repository root)
// with full syntax and type information for the packages and all their
// dependencies.  Any load or type error is fatal (fail closed).
func Load(dir string, extraEnv []string, patterns ...string) (*Program, error) {
	fset := token.NewFileSet()
	cfg := &packages.Config{
		Mode: packages.NeedName | packages.NeedFiles | packages.NeedCompiledGoFiles |
			packages.NeedImports | packages.NeedDeps | packages.NeedTypes |
			packages.NeedSyntax | packages.NeedTypesInfo | packages.NeedTypesSizes |
			packages.NeedModule,
		Dir:   dir,
		Fset:  fset,
		Env:   GoEnv(extraEnv...),
		Tests: false,
	}
	roots, err := packages.Load(cfg, patterns...)
	if err != nil {
		return nil, fmt.Errorf("loading %v: %w", patterns, err)
	}
	if len(roots) == 0 {
		return nil, fmt.Errorf("loading %v: no packages", patterns)
	}
	p := &Program{Dir: dir, Fset: fset, Roots: roots, Pkgs: map[string]*packages.Package{},
		funcs: map[string]*Func{}, allFns: map[*packages.Package][]*Func{}}
	var errs []string
	packages.Visit(roots, nil, func(pkg *packages.Package) {
		p.Pkgs[pkg.PkgPath] = pkg
		if strings.HasPrefix(pkg.PkgPath, ModulePath) {
			for _, e := range pkg.Errors {
				errs = append(errs, e.Error())
			}
			if len(pkg.IgnoredFiles) > 0 {
				// build-constrained files are recorded; they matter only if
				// they are non-test files of an analysed package
				for _, f := range pkg.IgnoredFiles {
					if !strings.HasSuffix(f, "_test.go") {
						p.BuildDesc += " ignored:" + filepath.Base(f)
					}
				}
			}
		}
	})
	if len(errs) > 0 {
		sort.Strings(errs)
		if len(errs) > 10 {
			errs = errs[:10]
		}
		return nil, fmt.Errorf("type or load errors in repository:\n  %s", strings.Join(errs, "\n  "))
	}
	return p, nil
}

// ShortPkg turns an import path of the repository into the short form used
// in keys ("pdf", "pdf/internal/filter/lzw").
func ShortPkg(path string) string {
	if path == ModulePath {
		return "pdf"
	}
	if strings.HasPrefix(path, ModulePath+"/") {
		return "pdf/" + path[len(ModulePath)+1:]
	}
	return path
}

// LongPkg is the inverse of ShortPkg.
func LongPkg(short string) string {
	if short == "pdf" {
		return ModulePath
	}
	if strings.HasPrefix(short, "pdf/") {
		return ModulePath + "/" + short[4:]
	}
	return short
}

// Pkg returns the package with the given short path; missing packages are a
// failed anchor.
func (p *Program) Pkg(short string) *packages.Package {
	pkg := p.Pkgs[LongPkg(short)]
	if pkg == nil || len(pkg.Syntax) == 0 {
		panic(AnchorError{fmt.Sprintf("package %s not loaded", short)})
	}
	return pkg
}

// HasPkg reports whether a package was loaded with syntax.
func (p *Program) HasPkg(short string) bool {
	pkg := p.Pkgs[LongPkg(short)]
	return pkg != nil && len(pkg.Syntax) > 0
}

// AnchorError is the panic value for an anchor that cannot be resolved.
type AnchorError struct{ Msg string }

func (e AnchorError) Error() string { return "unresolved anchor: " + e.Msg }

// UndecidedError is the panic value used by recognisers that give up.
type UndecidedError struct{ Msg string }

func (e UndecidedError) Error() string { return "undecided: " + e.Msg }

// Undecided aborts the current obligation as undecided.
func Undecided(format string, args ...any) {
	panic(UndecidedError{fmt.Sprintf(format, args...)})
}

// FuncKey builds the key of a function object.
func FuncKey(fn *types.Func) string {
	if fn == nil {
		return "<nil>"
	}
	pkg := ""
	if fn.Pkg() != nil {
		pkg = ShortPkg(fn.Pkg().Path())
	}
	sig, _ := fn.Type().(*types.Signature)
	if sig != nil && sig.Recv() != nil {
		t := sig.Recv().Type()
		ptr := false
		if pt, ok := t.(*types.Pointer); ok {
			t = pt.Elem()
			ptr = true
		}
		name := "?"
		switch tt := t.(type) {
		case *types.Named:
			name = tt.Obj().Name()
		case *types.Alias:
			name = tt.Obj().Name()
		case *types.Interface:
			name = "interface"
		}
		if ptr {
			return fmt.Sprintf("%s.(*%s).%s", pkg, name, VarName(fn))
		}
		return fmt.Sprintf("%s.%s.%s", pkg, name, VarName(fn))
	}
	return pkg + "." + VarName(fn)
}

// Funcs returns all functions with bodies declared in non-test files of pkg.
func (p *Program) Funcs(pkg *packages.Package) []*Func {
	p.mu.Lock()
	defer p.mu.Unlock()
	if fs, ok := p.allFns[pkg]; ok {
		return fs
	}
	var out []*Func
	for _, file := range pkg.Syntax {
		name := p.Fset.Position(file.Pos()).Filename
		if strings.HasSuffix(name, "_test.go") {
			continue
		}
		for _, d := range file.Decls {
			fd, ok := d.(*ast.FuncDecl)
			if !ok || fd.Body == nil {
				continue
			}
			obj, _ := pkg.TypesInfo.Defs[fd.Name].(*types.Func)
			if obj == nil {
				continue
			}
			f := &Func{Prog: p, Pkg: pkg, Decl: fd, Obj: obj, Key: FuncKey(obj)}
			out = append(out, f)
			p.funcs[f.Key] = f
		}
	}
	p.allFns[pkg] = out
	return out
}

// Func finds a function by short package and name: Func("pdf", "(*Writer).Put"),
// Func("pdf", "formatName").  A missing function is a failed anchor.
func (p *Program) Func(shortPkg, name string) *Func {
	f := p.FuncOpt(shortPkg, name)
	if f == nil {
		panic(AnchorError{fmt.Sprintf("function %s.%s not found", shortPkg, name)})
	}
	return f
}

// RawFunc is Func without normalisation.
func (p *Program) RawFunc(shortPkg, name string) *Func {
	pkg := p.Pkg(shortPkg)
	p.Funcs(pkg)
	p.mu.Lock()
	defer p.mu.Unlock()
	f := p.funcs[shortPkg+"."+name]
	if f == nil {
		panic(AnchorError{fmt.Sprintf("function %s.%s not found", shortPkg, name)})
	}
	return f
}

// FuncOpt is like Func but returns nil when the function does not exist.
func (p *Program) FuncOpt(shortPkg, name string) *Func {
	pkg := p.Pkg(shortPkg)
	p.Funcs(pkg)
	p.mu.Lock()
	f := p.funcs[shortPkg+"."+name]
	p.mu.Unlock()
	if f != nil && p.InlineKeep != nil {
		return f.Inlined(p.InlineKeep...)
	}
	return f
}

// FuncOf returns the declared function for a function object, or nil.
func (p *Program) FuncOf(obj *types.Func) *Func {
	if obj == nil || obj.Pkg() == nil {
		return nil
	}
	obj = obj.Origin()
	pkg := p.Pkgs[obj.Pkg().Path()]
	if pkg == nil || len(pkg.Syntax) == 0 || !strings.HasPrefix(pkg.PkgPath, ModulePath) {
		return nil
	}
	p.Funcs(pkg)
	p.mu.Lock()
	defer p.mu.Unlock()
	return p.funcs[FuncKey(obj)]
}

// Pos renders a position relative to the repository root.
func (p *Program) Pos(pos token.Pos) string {
	if !pos.IsValid() {
		return "-"
	}
	ps := p.Fset.Position(pos)
	rel, err := filepath.Rel(p.Dir, ps.Filename)
	if err != nil || strings.HasPrefix(rel, "..") {
		rel = ps.Filename
	}
	return fmt.Sprintf("%s:%d", rel, ps.Line)
}

// Info returns the types.Info of the function's package.
func (f *Func) Info() *types.Info { return f.Pkg.TypesInfo }

// Site builds a site record for a node inside the function.
func (f *Func) Site(n ast.Node, note string) Site {
	// a vertex without syntax of its own (the head of a range-over-integer loop): the function stands for it
	if n == nil || reflect.ValueOf(n).Kind() == reflect.Ptr && reflect.ValueOf(n).IsNil() {
		n = f.Decl
	}
	return Site{Pos: f.Prog.Pos(n.Pos()), Func: f.Key, Note: note}
}

// Const returns the constant value of a package-level constant.
func (p *Program) Const(shortPkg, name string) constant.Value {
	pkg := p.Pkg(shortPkg)
	obj := pkg.Types.Scope().Lookup(name)
	c, ok := obj.(*types.Const)
	if !ok {
		panic(AnchorError{fmt.Sprintf("constant %s.%s not found", shortPkg, name)})
	}
	return c.Val()
}

// ConstInt returns the value of an integer constant.
func (p *Program) ConstInt(shortPkg, name string) int64 {
	v := p.Const(shortPkg, name)
	i, ok := constant.Int64Val(constant.ToInt(v))
	if !ok {
		panic(AnchorError{fmt.Sprintf("constant %s.%s is not an integer", shortPkg, name)})
	}
	return i
}

// Var returns a package-level variable object and the expression
// initialising it (nil when there is none).
func (p *Program) Var(shortPkg, name string) (*types.Var, ast.Expr, *packages.Package) {
	pkg := p.Pkg(shortPkg)
	obj, ok := pkg.Types.Scope().Lookup(name).(*types.Var)
	if !ok {
		panic(AnchorError{fmt.Sprintf("variable %s.%s not found", shortPkg, name)})
	}
	for _, file := range pkg.Syntax {
		for _, d := range file.Decls {
			gd, ok := d.(*ast.GenDecl)
			if !ok || gd.Tok != token.VAR {
				continue
			}
			for _, s := range gd.Specs {
				vs := s.(*ast.ValueSpec)
				for i, n := range vs.Names {
					if pkg.TypesInfo.Defs[n] == obj {
						if i < len(vs.Values) {
							return obj, vs.Values[i], pkg
						}
						return obj, nil, pkg
					}
				}
			}
		}
	}
	return obj, nil, pkg
}

// IsTestFile reports whether the node lives in a _test.go file.
func (p *Program) IsTestFile(pos token.Pos) bool {
	return strings.HasSuffix(p.Fset.Position(pos).Filename, "_test.go")
}

// RepoPkgs returns the loaded repository packages (with syntax), sorted.
func (p *Program) RepoPkgs() []*packages.Package {
	var out []*packages.Package
	for path, pkg := range p.Pkgs {
		if strings.HasPrefix(path, ModulePath) && len(pkg.Syntax) > 0 {
			out = append(out, pkg)
		}
	}
	sort.Slice(out, func(i, j int) bool { return out[i].PkgPath < out[j].PkgPath })
	return out
}
