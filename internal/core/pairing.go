package core

import (
	"go/ast"
	"go/token"
	"go/types"
)

// ReleaseFinding reports an acquired resource that may leave the function
// neither released nor handed to an owner.
type ReleaseFinding struct {
	Acquire ast.Node
	Detail  string
}

// CheckReleased verifies, for an acquisition `x, err := acquire(...)` at
// vertex def (x bound to obj), that on every path from the success edge to
// the function exit the resource is released (a call x.<method>() for one
// of the release method names, directly or deferred) or escapes (is
// returned, stored into a field/map/slice/struct literal, or passed to a
// function other than the listed pure readers).
func CheckReleased(g *Graph, def *V, obj types.Object, releaseMethods map[string]bool, passThrough func(call *ast.CallExpr) bool) *ReleaseFinding {
	info := g.Info
	isRelease := func(call *ast.CallExpr) bool {
		se, ok := call.Fun.(*ast.SelectorExpr)
		return ok && releaseMethods[se.Sel.Name] && ObjOf(info, se.X) == obj
	}
	// wrappers: y := wrap(x) for a reader that consumes x without owning it (a scanner, a
	// buffered reader): whoever gets y has the resource in hand, so returning or storing y counts
	// like returning or storing x
	wrappers := map[types.Object]bool{}
	for round := 0; round < 2 && passThrough != nil; round++ {
		for _, v := range g.Vs {
			as, ok := v.AST.(*ast.AssignStmt)
			if !ok || len(as.Rhs) != 1 || len(as.Lhs) == 0 {
				continue
			}
			call, ok := ast.Unparen(as.Rhs[0]).(*ast.CallExpr)
			if !ok || !passThrough(call) {
				continue
			}
			for _, a := range call.Args {
				if ao := ObjOf(info, a); ao != nil && (ao == obj || wrappers[ao]) {
					if lo, isVar := ObjOf(info, as.Lhs[0]).(*types.Var); isVar && !lo.IsField() {
						if _, isID := ast.Unparen(as.Lhs[0]).(*ast.Ident); isID && lo != obj {
							wrappers[lo] = true
						}
					}
				}
			}
		}
	}
	mentionsRes := func(n ast.Node) bool {
		if Mentions(info, n, obj) {
			return true
		}
		for w := range wrappers {
			if Mentions(info, n, w) {
				return true
			}
		}
		return false
	}
	var sinks []*V // vertices after which the resource is taken care of
	for _, v := range g.Vs {
		if v == def || v.AST == nil {
			continue
		}
		done := false
		ast.Inspect(v.AST, func(n ast.Node) bool {
			switch x := n.(type) {
			case *ast.DeferStmt:
				if isRelease(x.Call) {
					done = true
				}
				// defer func() { ... x.Close() ... }()
				if lit, ok := x.Call.Fun.(*ast.FuncLit); ok {
					ast.Inspect(lit, func(m ast.Node) bool {
						if c, ok := m.(*ast.CallExpr); ok && isRelease(c) {
							done = true
						}
						return true
					})
				}
			case *ast.CallExpr:
				if isRelease(x) {
					done = true
					return false
				}
				for _, a := range x.Args {
					if ObjOf(info, a) == obj {
						if passThrough != nil && passThrough(x) {
							continue
						}
						done = true // handed to another owner
					}
				}
			case *ast.ReturnStmt:
				for _, r := range x.Results {
					if mentionsRes(r) {
						done = true
					}
				}
			case *ast.AssignStmt:
				for i, r := range x.Rhs {
					if Mentions(info, r, obj) {
						if call, ok := ast.Unparen(r).(*ast.CallExpr); ok {
							// wrapped: y := wrap(x) — ownership moves to y only if x is an argument (handled above)
							_ = call
							continue
						}
						if i < len(x.Lhs) {
							if _, isIdent := ast.Unparen(x.Lhs[i]).(*ast.Ident); !isIdent {
								done = true // stored into a field / element
							} else if _, isLit := ast.Unparen(r).(*ast.CompositeLit); isLit || isAddrOfLit(r) {
								done = true // stored into a struct literal
							}
						}
					}
				}
			case *ast.CompositeLit:
				if mentionsRes(x) {
					done = true
				}
			case *ast.GoStmt:
				if Mentions(info, x, obj) {
					done = true
				}
			case *ast.FuncLit:
				// captured by a closure that releases it
				rel := false
				ast.Inspect(x, func(m ast.Node) bool {
					if c, ok := m.(*ast.CallExpr); ok && isRelease(c) {
						rel = true
					}
					return true
				})
				if rel {
					done = true
				}
				return false
			}
			return !done
		})
		if done {
			sinks = append(sinks, v)
		}
	}
	// edges on which the acquisition failed (err != nil): nothing to release
	var errObj types.Object
	if as, ok := def.AST.(*ast.AssignStmt); ok && len(as.Lhs) >= 2 {
		errObj = ObjOf(info, as.Lhs[len(as.Lhs)-1])
	}
	failEdges := g.GuardEdges(func(a Atom) bool {
		cmp, ok := a.AsCmp()
		if !ok {
			return false
		}
		if errObj != nil && cmp.Op == token.NEQ && ObjOf(info, cmp.L) == errObj && IsNil(info, cmp.R) {
			return true
		}
		// x == nil: nothing acquired
		if cmp.Op == token.EQL && ObjOf(info, cmp.L) == obj && IsNil(info, cmp.R) {
			return true
		}
		return false
	})
	// only the first test of err after the acquisition counts (err may be reused)
	var cut []EdgeRef
	for _, e := range failEdges {
		reusedBefore := false
		if errObj != nil {
			for _, x := range g.Vs {
				if x != def && x.AST != nil && len(AssignsTo(info, x.AST, errObj)) > 0 && x.Cond == nil {
					if g.PathExists(def, x, nil) && g.PathExists(x, e.From, AvoidVs(def)) && !g.PathExists(e.From, x, AvoidVs(def)) {
						reusedBefore = true
					}
				}
			}
		}
		if !reusedBefore {
			cut = append(cut, e)
		}
	}
	// a deferred function registered before the acquisition that releases the
	// resource: unconditionally (every exit is covered), or when the function
	// fails (under tests of the named error result and of the resource only:
	// the error returns are covered, the success return must still hand it on)
	var errResult types.Object
	if g.Fn != nil && g.Fn.Decl != nil && g.Fn.Decl.Type.Results != nil {
		for _, f := range g.Fn.Decl.Type.Results.List {
			for _, nm := range f.Names {
				if o := info.ObjectOf(nm); o != nil && IsErrorType(o.Type()) {
					errResult = o
				}
			}
		}
	}
	for _, v := range g.Vs {
		ds, ok := v.AST.(*ast.DeferStmt)
		if !ok || !g.Dominates(v, def) {
			continue
		}
		lit, ok := ds.Call.Fun.(*ast.FuncLit)
		if !ok {
			continue
		}
		releases, conditional, foreign := false, false, false
		var walk func(n ast.Node, underIf bool)
		walk = func(n ast.Node, underIf bool) {
			ast.Inspect(n, func(m ast.Node) bool {
				switch x := m.(type) {
				case *ast.IfStmt:
					if m == n {
						return true
					}
					ast.Inspect(x.Cond, func(k ast.Node) bool {
						if id, isID := k.(*ast.Ident); isID {
							if o := info.ObjectOf(id); o != nil && o != obj && o != errResult && id.Name != "nil" {
								foreign = true
							}
						}
						return true
					})
					walk(x.Body, true)
					if x.Else != nil {
						walk(x.Else, true)
					}
					return false
				case *ast.ReturnStmt:
					if !releases {
						conditional = true // an early return in front of the release
					}
				case *ast.CallExpr:
					if isRelease(x) {
						releases = true
						if underIf {
							conditional = true
						}
					}
				}
				return true
			})
		}
		walk(lit.Body, false)
		if !releases || foreign {
			continue
		}
		// (a conditional release counts like one registered after the acquisition does above:
		// on the success path the resource stays with what the function returns)
		_ = conditional
		return nil
	}
	reach := g.ReachFrom(def, false, AvoidVs(sinks...).WithEdges(cut...))
	if reach[g.Exit] {
		return &ReleaseFinding{Acquire: def.AST, Detail: "some path from the acquisition to a return neither releases the resource nor hands it to an owner"}
	}
	return nil
}

func isAddrOfLit(e ast.Expr) bool {
	u, ok := ast.Unparen(e).(*ast.UnaryExpr)
	if !ok || u.Op != token.AND {
		return false
	}
	_, ok = ast.Unparen(u.X).(*ast.CompositeLit)
	return ok
}
