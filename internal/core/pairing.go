package core

import (
	"go/ast"
	"go/token"
	"go/types"
)

// ReleaseFinding reports an acquired resource that may leave the function
// neither released nor handed to an owner.
type ReleaseFinding struct {
	Acquire ast.Node
	Detail  string
}

// CheckReleased verifies, for an acquisition `x, err := acquire(...)` at
// vertex def (x bound to obj), that on every path from the success edge to
// the function exit the resource is released (a call x.<method>() for one
// of the release method names, directly or deferred) or escapes (is
// returned, stored into a field/map/slice/struct literal, or passed to a
// function other than the listed pure readers).
func CheckReleased(g *Graph, def *V, obj types.Object, releaseMethods map[string]bool, passThrough func(call *ast.CallExpr) bool) *ReleaseFinding {
	info := g.Info
	isRelease := func(call *ast.CallExpr) bool {
		se, ok := call.Fun.(*ast.SelectorExpr)
		return ok && releaseMethods[se.Sel.Name] && ObjOf(info, se.X) == obj
	}
	var sinks []*V // vertices after which the resource is taken care of
	for _, v := range g.Vs {
		if v == def || v.AST == nil {
			continue
		}
		done := false
		ast.Inspect(v.AST, func(n ast.Node) bool {
			switch x := n.(type) {
			case *ast.DeferStmt:
				if isRelease(x.Call) {
					done = true
				}
				// defer func() { ... x.Close() ... }()
				if lit, ok := x.Call.Fun.(*ast.FuncLit); ok {
					ast.Inspect(lit, func(m ast.Node) bool {
						if c, ok := m.(*ast.CallExpr); ok && isRelease(c) {
							done = true
						}
						return true
					})
				}
			case *ast.CallExpr:
				if isRelease(x) {
					done = true
					return false
				}
				for _, a := range x.Args {
					if ObjOf(info, a) == obj {
						if passThrough != nil && passThrough(x) {
							continue
						}
						done = true // handed to another owner
					}
				}
			case *ast.ReturnStmt:
				for _, r := range x.Results {
					if Mentions(info, r, obj) {
						done = true
					}
				}
			case *ast.AssignStmt:
				for i, r := range x.Rhs {
					if Mentions(info, r, obj) {
						if call, ok := ast.Unparen(r).(*ast.CallExpr); ok {
							// wrapped: y := wrap(x) — ownership moves to y only if x is an argument (handled above)
							_ = call
							continue
						}
						if i < len(x.Lhs) {
							if _, isIdent := ast.Unparen(x.Lhs[i]).(*ast.Ident); !isIdent {
								done = true // stored into a field / element
							} else if _, isLit := ast.Unparen(r).(*ast.CompositeLit); isLit || isAddrOfLit(r) {
								done = true // stored into a struct literal
							}
						}
					}
				}
			case *ast.CompositeLit:
				if Mentions(info, x, obj) {
					done = true
				}
			case *ast.GoStmt:
				if Mentions(info, x, obj) {
					done = true
				}
			case *ast.FuncLit:
				// captured by a closure that releases it
				rel := false
				ast.Inspect(x, func(m ast.Node) bool {
					if c, ok := m.(*ast.CallExpr); ok && isRelease(c) {
						rel = true
					}
					return true
				})
				if rel {
					done = true
				}
				return false
			}
			return !done
		})
		if done {
			sinks = append(sinks, v)
		}
	}
	// edges on which the acquisition failed (err != nil): nothing to release
	var errObj types.Object
	if as, ok := def.AST.(*ast.AssignStmt); ok && len(as.Lhs) >= 2 {
		errObj = ObjOf(info, as.Lhs[len(as.Lhs)-1])
	}
	failEdges := g.GuardEdges(func(a Atom) bool {
		cmp, ok := a.AsCmp()
		if !ok {
			return false
		}
		if errObj != nil && cmp.Op == token.NEQ && ObjOf(info, cmp.L) == errObj && IsNil(info, cmp.R) {
			return true
		}
		// x == nil: nothing acquired
		if cmp.Op == token.EQL && ObjOf(info, cmp.L) == obj && IsNil(info, cmp.R) {
			return true
		}
		return false
	})
	// only the first test of err after the acquisition counts (err may be reused)
	var cut []EdgeRef
	for _, e := range failEdges {
		reusedBefore := false
		if errObj != nil {
			for _, x := range g.Vs {
				if x != def && x.AST != nil && len(AssignsTo(info, x.AST, errObj)) > 0 && x.Cond == nil {
					if g.PathExists(def, x, nil) && g.PathExists(x, e.From, AvoidVs(def)) && !g.PathExists(e.From, x, AvoidVs(def)) {
						reusedBefore = true
					}
				}
			}
		}
		if !reusedBefore {
			cut = append(cut, e)
		}
	}
	reach := g.ReachFrom(def, false, AvoidVs(sinks...).WithEdges(cut...))
	if reach[g.Exit] {
		return &ReleaseFinding{Acquire: def.AST, Detail: "some path from the acquisition to a return neither releases the resource nor hands it to an owner"}
	}
	return nil
}

func isAddrOfLit(e ast.Expr) bool {
	u, ok := ast.Unparen(e).(*ast.UnaryExpr)
	if !ok || u.Op != token.AND {
		return false
	}
	_, ok = ast.Unparen(u.X).(*ast.CompositeLit)
	return ok
}
