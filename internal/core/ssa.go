package core

import (
	"go/types"
	"sync"

	"golang.org/x/tools/go/callgraph"
	"golang.org/x/tools/go/callgraph/cha"
	"golang.org/x/tools/go/callgraph/vta"
	"golang.org/x/tools/go/ssa"
	"golang.org/x/tools/go/ssa/ssautil"
)

// SSAProgram is the SSA form of the loaded program, built on demand.
type SSAProgram struct {
	Prog *ssa.Program
	Pkgs []*ssa.Package

	cgOnce sync.Once
	cg     *callgraph.Graph
}

// SSA builds (once) the SSA form of all loaded packages.
func (p *Program) SSA() *SSAProgram {
	p.mu.Lock()
	defer p.mu.Unlock()
	if p.ssa != nil {
		return p.ssa
	}
	prog, pkgs := ssautil.AllPackages(p.Roots, ssa.InstantiateGenerics)
	prog.Build()
	p.ssa = &SSAProgram{Prog: prog, Pkgs: pkgs}
	return p.ssa
}

// FuncValue returns the SSA function of a declared function.
func (s *SSAProgram) FuncValue(obj *types.Func) *ssa.Function {
	return s.Prog.FuncValue(obj)
}

// CallGraph returns the VTA call graph (seeded with CHA).
func (s *SSAProgram) CallGraph() *callgraph.Graph {
	s.cgOnce.Do(func() {
		all := ssautil.AllFunctions(s.Prog)
		s.cg = vta.CallGraph(all, cha.CallGraph(s.Prog))
	})
	return s.cg
}
