package core

import (
	"fmt"
	"go/ast"
	"go/constant"
	"go/token"
	"go/types"
	"os"
	"sort"
	"strconv"
	"strings"
)

// This file decides implications between path conditions.  A path condition
// is a conjunction of atoms (facts on dominating branch edges).  Atoms are
// boolean combinations of comparisons between integer terms.  The decision
// procedure is a truth table: every leaf term (a field, a variable, a call
// the analysis cannot see through) ranges over the representative points of
// the partition induced by the constants it is compared with (c-1, c, c+1
// for every constant c in either condition, plus -1, 0, 1), boolean leaves
// over {false, true}.  For conditions built from comparisons with constants
// and from sums/differences of leaves this partition is exact for the
// orderings the conditions can distinguish; leaves the analysis cannot
// interpret are free variables, which makes the answer conservative
// ("does not follow") rather than wrong.

// DominatingAtoms returns the facts that hold on every path to v.
func (g *Graph) DominatingAtoms(v *V) []Atom {
	var out []Atom
	for _, bv := range g.BranchVertices() {
		if bv.Cond.Expr == nil {
			continue
		}
		for _, l := range []EdgeLabel{EdgeTrue, EdgeFalse} {
			if !g.EdgeDominates(v, EdgeRef{From: bv, Label: l}) {
				continue
			}
			for _, a := range bv.Implied(l) {
				out = append(out, a)
				// a boolean local that names a condition (allEnd := n == len(x); if allEnd):
				// the facts of that condition hold as well
				out = append(out, g.ExpandNamed(a)...)
			}
		}
	}
	return out
}

// ExpandNamed returns, for an atom that tests a boolean local defined once as
// a condition over values that do not change, the facts that condition
// implies (nothing for other atoms).
func (g *Graph) ExpandNamed(a Atom) []Atom {
	obj, k, eq, ok := g.flagTest(a)
	if !ok {
		return nil
	}
	e, truth, isNamed := g.namedCondition(obj, k, eq, false)
	if !isNamed {
		return nil
	}
	return ImpliedBy(e, truth)
}

// DominatingEdges returns the branch edges every path to v takes.
func (g *Graph) DominatingEdges(v *V) []EdgeRef {
	var out []EdgeRef
	for _, bv := range g.BranchVertices() {
		if bv.Cond.Expr == nil {
			continue
		}
		for _, l := range []EdgeLabel{EdgeTrue, EdgeFalse} {
			if g.EdgeDominates(v, EdgeRef{From: bv, Label: l}) {
				out = append(out, EdgeRef{From: bv, Label: l})
			}
		}
	}
	return out
}

// GuardsSufficient reports whether the dominating facts of v are also
// sufficient for reaching v before sink: starting at from, a path that
// never takes the opposite of a dominating edge cannot reach sink without
// passing v.
func (g *Graph) GuardsSufficient(from, v, sink *V, stop ...*V) bool {
	var opp []EdgeRef
	for _, e := range g.DominatingEdges(v) {
		l := EdgeTrue
		if e.Label == EdgeTrue {
			l = EdgeFalse
		}
		opp = append(opp, EdgeRef{From: e.From, Label: l})
	}
	return !g.ReachFrom(from, true, AvoidEdges(opp...).With(v).With(stop...))[sink]
}

// Formula is a set of atoms interpreted as a conjunction, together with the
// information needed to interpret its expressions.
type Formula struct {
	Fn    *Func
	Atoms []Atom
	// Subst maps objects (e.g. a receiver or a local alias) to expressions.
	Subst map[types.Object]ast.Expr
}

type lval struct {
	isBool bool
	b      bool
	n      int64
	ok     bool
	deps   []string // collect mode: numeric leaves the value depends on
	cs     []int64  // collect mode: constants the value depends on
}

type logicEnv struct {
	prog    *Program
	leaves  map[string]bool // key -> isBool
	parent  map[string]string
	groupCs map[string]map[int64]bool
	consts  map[int64]bool
	val     map[string]lval
	collect bool
	depth   int
	giveUp  string
	bitops  bool
	// expandLocals: read single-definition arithmetic locals as their definitions (Implies only:
	// the tabulations are given domains for the locals themselves)
	expandLocals bool
}

// leafKey renders an expression canonically: parentheses and integer
// conversions are dropped, substituted objects are replaced.
func (le *logicEnv) leafKey(info *types.Info, e ast.Expr, subst map[types.Object]ast.Expr) string {
	e = ast.Unparen(e)
	switch x := e.(type) {
	case *substExpr:
		return le.leafKey(x.fn.Info(), x.e, x.subst)
	case *ast.Ident:
		if obj := info.ObjectOf(x); obj != nil {
			if r, ok := subst[obj]; ok {
				return le.leafKey(info, r, nil)
			}
			if _, isVar := obj.(*types.Var); isVar && obj.Pos().IsValid() && obj.Parent() != nil && obj.Parent() != obj.Pkg().Scope() {
				// local variables are told apart by their declaration
				return fmt.Sprintf("%s@%d", x.Name, le.prog.Fset.Position(obj.Pos()).Line)
			}
		}
		return x.Name
	case *ast.SelectorExpr:
		return le.leafKey(info, x.X, subst) + "." + x.Sel.Name
	case *ast.StarExpr:
		return le.leafKey(info, x.X, subst)
	case *ast.IndexExpr:
		return le.leafKey(info, x.X, subst) + "[" + le.leafKey(info, x.Index, subst) + "]"
	case *ast.CallExpr:
		if tv, ok := info.Types[x.Fun]; ok && tv.IsType() && len(x.Args) == 1 {
			return le.leafKey(info, x.Args[0], subst)
		}
		var args []string
		for _, a := range x.Args {
			args = append(args, le.leafKey(info, a, subst))
		}
		return le.leafKey(info, x.Fun, subst) + "(" + strings.Join(args, ",") + ")"
	case *ast.BasicLit:
		return x.Value
	}
	return le.prog.Src(e)
}

func (le *logicEnv) leaf(key string, isBool bool) lval {
	if le.collect {
		le.leaves[key] = isBool
		if isBool {
			return lval{isBool: true, ok: true}
		}
		return lval{ok: true, deps: []string{key}}
	}
	v, ok := le.val[key]
	if !ok {
		le.giveUp = "leaf without value: " + key
		return lval{}
	}
	return v
}

func (le *logicEnv) find(k string) string {
	for le.parent[k] != "" && le.parent[k] != k {
		k = le.parent[k]
	}
	return k
}

// group records that the leaves are compared with each other and with the
// constants: they share one set of representative points.
func (le *logicEnv) group(leaves []string, cs []int64) {
	if len(leaves) == 0 {
		return
	}
	root := le.find(leaves[0])
	if le.groupCs[root] == nil {
		le.groupCs[root] = map[int64]bool{}
	}
	for _, l := range leaves[1:] {
		r := le.find(l)
		if r != root {
			le.parent[r] = root
			for c := range le.groupCs[r] {
				le.groupCs[root][c] = true
			}
			delete(le.groupCs, r)
		}
	}
	for _, c := range cs {
		le.groupCs[root][c] = true
	}
}

func isBoolType(t types.Type) bool {
	if t == nil {
		return false
	}
	b, ok := t.Underlying().(*types.Basic)
	return ok && b.Info()&types.IsBoolean != 0
}

// simpleBody returns the single returned expression of a function whose
// body is "return <expr>", or nil.
func simpleBody(fn *Func) ast.Expr {
	if fn == nil || fn.Decl.Body == nil || len(fn.Decl.Body.List) != 1 {
		return nil
	}
	rs, ok := fn.Decl.Body.List[0].(*ast.ReturnStmt)
	if !ok || len(rs.Results) != 1 {
		return nil
	}
	return rs.Results[0]
}

// guardedReturns: the body is a chain "if c1 { return e1 } ... return en" of
// single-result returns (a single return statement included).
func guardedReturns(body *ast.BlockStmt) bool {
	if body == nil || len(body.List) == 0 || len(body.List) > 6 {
		return false
	}
	if switchReturns(body) != nil {
		return true
	}
	for i, st := range body.List {
		if i == len(body.List)-1 {
			rs, ok := st.(*ast.ReturnStmt)
			return ok && len(rs.Results) == 1
		}
		is, ok := st.(*ast.IfStmt)
		if !ok || is.Init != nil || is.Else != nil || len(is.Body.List) != 1 {
			return false
		}
		rs, ok := is.Body.List[0].(*ast.ReturnStmt)
		if !ok || len(rs.Results) != 1 {
			return false
		}
	}
	return false
}

// switchReturns: the body is "switch tag { case a, b: return x; ...; default:
// return y }", optionally followed by a final return that stands for the
// default.  It returns the switch, or nil.
func switchReturns(body *ast.BlockStmt) *ast.SwitchStmt {
	if body == nil || len(body.List) == 0 || len(body.List) > 2 {
		return nil
	}
	sw, ok := body.List[0].(*ast.SwitchStmt)
	if !ok || sw.Init != nil || sw.Tag == nil {
		return nil
	}
	hasDefault := false
	for _, st := range sw.Body.List {
		cc := st.(*ast.CaseClause)
		if len(cc.Body) != 1 {
			return nil
		}
		rs, ok := cc.Body[0].(*ast.ReturnStmt)
		if !ok || len(rs.Results) != 1 {
			return nil
		}
		if cc.List == nil {
			hasDefault = true
		}
	}
	if len(body.List) == 2 {
		rs, ok := body.List[1].(*ast.ReturnStmt)
		if !ok || len(rs.Results) != 1 || hasDefault {
			return nil
		}
		return sw
	}
	if !hasDefault {
		return nil
	}
	return sw
}

// evalSwitchReturns evaluates a body accepted by switchReturns.
func (le *logicEnv) evalSwitchReturns(fn *Func, body *ast.BlockStmt, sw *ast.SwitchStmt, sub map[types.Object]ast.Expr) lval {
	tag := le.eval(fn, sw.Tag, sub)
	var dflt ast.Expr
	if len(body.List) == 2 {
		dflt = body.List[1].(*ast.ReturnStmt).Results[0]
	}
	for _, st := range sw.Body.List {
		cc := st.(*ast.CaseClause)
		if cc.List == nil {
			dflt = cc.Body[0].(*ast.ReturnStmt).Results[0]
		}
	}
	if le.collect {
		out := le.eval(fn, dflt, sub)
		out.ok = out.ok && tag.ok
		deps := append([]string{}, tag.deps...)
		cs := append([]int64{}, tag.cs...)
		for _, st := range sw.Body.List {
			cc := st.(*ast.CaseClause)
			for _, ce := range cc.List {
				cv := le.eval(fn, ce, sub)
				deps = append(deps, cv.deps...)
				cs = append(cs, cv.cs...)
				out.ok = out.ok && cv.ok
			}
			rv := le.eval(fn, cc.Body[0].(*ast.ReturnStmt).Results[0], sub)
			out.ok = out.ok && rv.ok
			out.deps = append(append([]string{}, out.deps...), rv.deps...)
			out.cs = append(append([]int64{}, out.cs...), rv.cs...)
		}
		// the tag is compared with the case values
		le.group(deps, cs)
		return out
	}
	if !tag.ok {
		return lval{}
	}
	for _, st := range sw.Body.List {
		cc := st.(*ast.CaseClause)
		for _, ce := range cc.List {
			cv := le.eval(fn, ce, sub)
			if !cv.ok {
				return lval{}
			}
			if cv.isBool == tag.isBool && cv.n == tag.n && cv.b == tag.b {
				return le.eval(fn, cc.Body[0].(*ast.ReturnStmt).Results[0], sub)
			}
		}
	}
	return le.eval(fn, dflt, sub)
}

// evalGuardedReturns evaluates a body accepted by guardedReturns.
func (le *logicEnv) evalGuardedReturns(fn *Func, body *ast.BlockStmt, sub map[types.Object]ast.Expr) lval {
	if sw := switchReturns(body); sw != nil {
		return le.evalSwitchReturns(fn, body, sw, sub)
	}
	last := body.List[len(body.List)-1].(*ast.ReturnStmt).Results[0]
	if le.collect {
		out := le.eval(fn, last, sub)
		for _, st := range body.List[:len(body.List)-1] {
			is := st.(*ast.IfStmt)
			c := le.eval(fn, is.Cond, sub)
			v := le.eval(fn, is.Body.List[0].(*ast.ReturnStmt).Results[0], sub)
			if !c.ok || !v.ok {
				out.ok = false
			}
			out.deps = append(append([]string{}, out.deps...), v.deps...)
			out.cs = append(append([]int64{}, out.cs...), v.cs...)
		}
		return out
	}
	for _, st := range body.List[:len(body.List)-1] {
		is := st.(*ast.IfStmt)
		c := le.eval(fn, is.Cond, sub)
		if !c.ok {
			return lval{}
		}
		if c.b {
			return le.eval(fn, is.Body.List[0].(*ast.ReturnStmt).Results[0], sub)
		}
	}
	return le.eval(fn, last, sub)
}

func (le *logicEnv) eval(fn *Func, e ast.Expr, subst map[types.Object]ast.Expr) lval {
	info := fn.Info()
	e = ast.Unparen(e)
	if e == FalseExpr {
		return lval{isBool: true, ok: true}
	}
	if se, ok := e.(*substExpr); ok {
		return le.eval(se.fn, se.e, se.subst)
	}
	if tv, ok := info.Types[e]; ok && tv.Value != nil {
		switch tv.Value.Kind() {
		case constant.Bool:
			return lval{isBool: true, b: constant.BoolVal(tv.Value), ok: true}
		case constant.Int:
			if n, exact := constant.Int64Val(tv.Value); exact {
				if le.collect {
					return lval{n: n, ok: true, cs: []int64{n}}
				}
				return lval{n: n, ok: true}
			}
		}
	}
	if IsNil(info, e) {
		if le.collect {
			return lval{n: 0, ok: true, cs: []int64{0}}
		}
		return lval{n: 0, ok: true}
	}
	switch x := e.(type) {
	case *ast.BasicLit:
		if x.Kind == token.INT {
			if n, err := strconv.ParseInt(x.Value, 0, 64); err == nil {
				if le.collect {
					return lval{n: n, ok: true, cs: []int64{n}}
				}
				return lval{n: n, ok: true}
			}
		}
	case *ast.Ident:
		if obj := info.ObjectOf(x); obj != nil {
			if r, ok := subst[obj]; ok {
				return le.eval(fn, r, nil)
			}
			// a local defined once as arithmetic over values that never change
			// (room := 256 - int(firstChar)) stands for its definition
			if le.expandLocals && le.depth < 6 {
				if rhs := pureLocalDef(fn, obj); rhs != nil {
					le.depth++
					v := le.eval(fn, rhs, subst)
					le.depth--
					return v
				}
			}
		} else if x.Name == "nil" {
			// synthetic nil in formulas built by rules
			if le.collect {
				return lval{n: 0, ok: true, cs: []int64{0}}
			}
			return lval{n: 0, ok: true}
		}
	case *ast.UnaryExpr:
		switch x.Op {
		case token.NOT:
			v := le.eval(fn, x.X, subst)
			v.b = !v.b
			return v
		case token.SUB:
			v := le.eval(fn, x.X, subst)
			v.n = -v.n
			return v
		case token.ADD:
			return le.eval(fn, x.X, subst)
		case token.XOR:
			if le.bitops {
				v := le.eval(fn, x.X, subst)
				v.n = ^v.n
				return v
			}
		}
	case *ast.BinaryExpr:
		l := le.eval(fn, x.X, subst)
		r := le.eval(fn, x.Y, subst)
		if !l.ok || !r.ok {
			return lval{}
		}
		if le.collect {
			switch x.Op {
			case token.EQL, token.NEQ, token.LSS, token.LEQ, token.GTR, token.GEQ:
				le.group(append(append([]string{}, l.deps...), r.deps...), append(append([]int64{}, l.cs...), r.cs...))
				return lval{isBool: true, ok: true}
			case token.LAND, token.LOR:
				return lval{isBool: true, ok: true}
			case token.ADD, token.SUB, token.MUL, token.QUO:
				return lval{ok: true, deps: append(append([]string{}, l.deps...), r.deps...), cs: append(append([]int64{}, l.cs...), r.cs...)}
			}
		}
		switch x.Op {
		case token.LAND:
			return lval{isBool: true, b: l.b && r.b, ok: true}
		case token.LOR:
			return lval{isBool: true, b: l.b || r.b, ok: true}
		case token.EQL:
			if l.isBool {
				return lval{isBool: true, b: l.b == r.b, ok: true}
			}
			return lval{isBool: true, b: l.n == r.n, ok: true}
		case token.NEQ:
			if l.isBool {
				return lval{isBool: true, b: l.b != r.b, ok: true}
			}
			return lval{isBool: true, b: l.n != r.n, ok: true}
		case token.LSS:
			return lval{isBool: true, b: l.n < r.n, ok: true}
		case token.LEQ:
			return lval{isBool: true, b: l.n <= r.n, ok: true}
		case token.GTR:
			return lval{isBool: true, b: l.n > r.n, ok: true}
		case token.GEQ:
			return lval{isBool: true, b: l.n >= r.n, ok: true}
		case token.ADD:
			return lval{n: l.n + r.n, ok: true}
		case token.SUB:
			return lval{n: l.n - r.n, ok: true}
		case token.MUL:
			return lval{n: l.n * r.n, ok: true}
		case token.AND, token.OR, token.XOR, token.SHL, token.SHR, token.REM:
			// bit tests: Implies keeps the whole expression as one leaf
			if le.bitops {
				if le.collect {
					return lval{ok: true, deps: append(append([]string{}, l.deps...), r.deps...)}
				}
				switch x.Op {
				case token.AND:
					return lval{n: l.n & r.n, ok: true}
				case token.OR:
					return lval{n: l.n | r.n, ok: true}
				case token.XOR:
					return lval{n: l.n ^ r.n, ok: true}
				case token.SHL:
					if r.n >= 0 && r.n < 63 {
						return lval{n: l.n << uint(r.n), ok: true}
					}
				case token.SHR:
					if r.n >= 0 && r.n < 63 {
						return lval{n: l.n >> uint(r.n), ok: true}
					}
				case token.REM:
					if r.n != 0 {
						return lval{n: l.n % r.n, ok: true}
					}
				}
				le.giveUp = "operator out of range"
				return lval{}
			}
		case token.QUO:
			if r.n != 0 {
				return lval{n: l.n / r.n, ok: true}
			}
			return lval{n: 0, ok: true}
		}
	case *ast.CallExpr:
		// conversion
		if tv, ok := info.Types[x.Fun]; ok && tv.IsType() && len(x.Args) == 1 {
			return le.eval(fn, x.Args[0], subst)
		}
		if id, ok := ast.Unparen(x.Fun).(*ast.Ident); ok {
			if b, ok := info.ObjectOf(id).(*types.Builtin); ok && (b.Name() == "max" || b.Name() == "min") && len(x.Args) > 0 {
				acc := le.eval(fn, x.Args[0], subst)
				for _, a := range x.Args[1:] {
					v := le.eval(fn, a, subst)
					if !v.ok {
						return lval{}
					}
					if le.collect {
						acc.deps = append(append([]string{}, acc.deps...), v.deps...)
						acc.cs = append(append([]int64{}, acc.cs...), v.cs...)
						continue
					}
					if (b.Name() == "max" && v.n > acc.n) || (b.Name() == "min" && v.n < acc.n) {
						acc = v
					}
				}
				return acc
			}
		}
		// a local function literal with a single return statement, bound once: inline it
		if id, ok := ast.Unparen(x.Fun).(*ast.Ident); ok && le.depth < 4 {
			if obj, isVar := info.ObjectOf(id).(*types.Var); isVar && !obj.IsField() {
				defs := AssignsTo(info, fn.Decl, obj)
				if len(defs) == 1 {
					if as, ok := defs[0].(*ast.AssignStmt); ok && len(as.Rhs) == 1 && len(as.Lhs) == 1 {
						if fl, ok := ast.Unparen(as.Rhs[0]).(*ast.FuncLit); ok && guardedReturns(fl.Body) {
							{
								sub := map[types.Object]ast.Expr{}
								for k, v := range subst {
									sub[k] = v
								}
								i := 0
								for _, fl2 := range fl.Type.Params.List {
									for _, nm := range fl2.Names {
										if i < len(x.Args) {
											sub[info.Defs[nm]] = &substExpr{fn: fn, e: x.Args[i], subst: subst}
										}
										i++
									}
								}
								if i == len(x.Args) {
									le.depth++
									v := le.evalGuardedReturns(fn, fl.Body, sub)
									le.depth--
									return v
								}
							}
						}
					}
				}
			}
		}
		// one-line pure method or function of the repository: inline it
		if callee := Callee(info, x); callee != nil && le.depth < 4 {
			if cf := le.prog.FuncOf(callee); cf != nil {
				if cf.Decl.Body != nil && guardedReturns(cf.Decl.Body) {
					sub := map[types.Object]ast.Expr{}
					okSub := true
					sig := callee.Type().(*types.Signature)
					if sig.Recv() != nil {
						sel, isSel := ast.Unparen(x.Fun).(*ast.SelectorExpr)
						if !isSel || cf.Decl.Recv == nil || len(cf.Decl.Recv.List) != 1 || len(cf.Decl.Recv.List[0].Names) != 1 {
							okSub = false
						} else {
							robj := cf.Info().Defs[cf.Decl.Recv.List[0].Names[0]]
							sub[robj] = &substExpr{fn: fn, e: sel.X, subst: subst}
						}
					}
					i := 0
					for _, fl := range cf.Decl.Type.Params.List {
						for _, nm := range fl.Names {
							if i < len(x.Args) {
								sub[cf.Info().Defs[nm]] = &substExpr{fn: fn, e: x.Args[i], subst: subst}
							}
							i++
						}
					}
					if okSub && i == len(x.Args) {
						le.depth++
						v := le.evalGuardedReturns(cf, cf.Decl.Body, sub)
						le.depth--
						return v
					}
				}
			}
		}
	}
	// leaf
	return le.leaf(le.leafKey(info, e, subst), isBoolType(info.TypeOf(e)))
}

// substExpr carries an argument expression together with the function and
// substitution in whose scope it has to be interpreted.
type substExpr struct {
	ast.BadExpr
	fn    *Func
	e     ast.Expr
	subst map[types.Object]ast.Expr
}

func (le *logicEnv) evalAtom(f Formula, a Atom) lval {
	if a.Tag != nil {
		l := le.eval(f.Fn, a.Tag, f.Subst)
		r := le.eval(f.Fn, a.Expr, f.Subst)
		if !l.ok || !r.ok {
			return lval{}
		}
		if le.collect {
			le.group(append(append([]string{}, l.deps...), r.deps...), append(append([]int64{}, l.cs...), r.cs...))
		}
		eq := l.n == r.n
		if l.isBool {
			eq = l.b == r.b
		}
		return lval{isBool: true, b: eq != a.Neg, ok: true}
	}
	v := le.eval(f.Fn, a.Expr, f.Subst)
	if !v.ok {
		return v
	}
	if a.Neg {
		v.b = !v.b
	}
	return v
}

func (le *logicEnv) evalFormula(f Formula) (bool, bool) {
	res := true
	for _, a := range f.Atoms {
		v := le.evalAtom(f, a)
		if !v.ok {
			return false, false
		}
		if !v.b {
			res = false
		}
	}
	return res, true
}

// Implies decides whether the conjunction a implies the conjunction b.  On
// "no" the counterexample valuation is returned.  decided is false when the
// number of leaves exceeds the enumeration bound.
func (p *Program) Implies(a, b Formula) (holds bool, counter string, decided bool) {
	return p.ImpliesAny(a, []Formula{b})
}

// ImpliesAny decides a => b1 || b2 || ... (each bi a conjunction).
func (p *Program) ImpliesAny(a Formula, bs []Formula) (holds bool, counter string, decided bool) {
	b := bs[0]
	le := &logicEnv{prog: p, leaves: map[string]bool{}, consts: map[int64]bool{}, collect: true, expandLocals: os.Getenv("PDFVERIF_NOEXPANDLOCALS") == "",
		parent: map[string]string{}, groupCs: map[string]map[int64]bool{}}
	le.evalFormula(a)
	for _, bi := range bs {
		le.evalFormula(bi)
	}
	le.collect = false
	var keys []string
	for k := range le.leaves {
		keys = append(keys, k)
	}
	sort.Strings(keys)
	domains := make([][]int64, len(keys))
	total := 1
	for i, k := range keys {
		if le.leaves[k] {
			domains[i] = []int64{0, 1}
		} else {
			dom := map[int64]bool{-1: true, 0: true, 1: true}
			for c := range le.groupCs[le.find(k)] {
				dom[c-1], dom[c], dom[c+1] = true, true, true
			}
			for c := range dom {
				domains[i] = append(domains[i], c)
			}
			sort.Slice(domains[i], func(x, y int) bool { return domains[i][x] < domains[i][y] })
		}
		total *= len(domains[i])
		if total > 5_000_000 {
			return false, fmt.Sprintf("more than 5e6 valuations over %d leaves", len(keys)), false
		}
	}
	idx := make([]int, len(keys))
	le.val = map[string]lval{}
	for {
		for i, k := range keys {
			if le.leaves[k] {
				le.val[k] = lval{isBool: true, b: idx[i] == 1, ok: true}
			} else {
				le.val[k] = lval{n: domains[i][idx[i]], ok: true}
			}
		}
		av, ok1 := le.evalFormula(a)
		bv, ok2 := true, true
		if av {
			bv, ok2 = le.evalFormula(b)
			for _, bi := range bs[1:] {
				if bv || !ok2 {
					break
				}
				bv, ok2 = le.evalFormula(bi)
			}
		}
		if !ok1 || !ok2 {
			return false, le.giveUp, false
		}
		if av && !bv {
			var parts []string
			for _, k := range keys {
				v := le.val[k]
				if v.isBool {
					parts = append(parts, fmt.Sprintf("%s=%v", k, v.b))
				} else {
					parts = append(parts, fmt.Sprintf("%s=%d", k, v.n))
				}
			}
			return false, strings.Join(parts, ", "), true
		}
		i := 0
		for ; i < len(keys); i++ {
			idx[i]++
			if idx[i] < len(domains[i]) {
				break
			}
			idx[i] = 0
		}
		if i == len(keys) {
			break
		}
	}
	return true, "", true
}

// Satisfiable reports whether the conjunction has a model among the
// representative valuations.
func (p *Program) Satisfiable(a Formula) (bool, bool) {
	// a is satisfiable iff a does not imply false
	holds, _, decided := p.Implies(a, Formula{Fn: a.Fn, Atoms: []Atom{{Expr: FalseExpr, Neg: false}}})
	return !holds, decided
}

// FalseExpr is an expression that is false under every valuation.
var FalseExpr ast.Expr = &ast.Ident{Name: "false"}

// FormulaString renders the atoms for reports.
func (p *Program) FormulaString(f Formula) string {
	var parts []string
	for _, a := range f.Atoms {
		s := p.Src(a.Expr)
		if a.Tag != nil {
			op := " == "
			if a.Neg {
				op = " != "
			}
			s = p.Src(a.Tag) + op + s
		} else if a.Neg {
			s = "!(" + s + ")"
		}
		parts = append(parts, s)
	}
	sort.Strings(parts)
	return strings.Join(parts, " && ")
}

// Tabulate evaluates the integer or boolean expression e of fn for every
// combination of the given leaf values.  domains maps a leaf (matched by
// suffix of its canonical key, e.g. ".Colors") to the values it ranges
// over; a leaf without domain makes the tabulation undecided.  One-line
// repository functions are inlined, so the leaves are the fields and
// variables the value really depends on.
func (p *Program) Tabulate(fn *Func, e ast.Expr, subst map[types.Object]ast.Expr, domains map[string][]int64,
	cb func(env map[string]int64, n int64, b bool)) (decided bool, reason string) {
	le := &logicEnv{prog: p, leaves: map[string]bool{}, consts: map[int64]bool{}, collect: true, bitops: true,
		parent: map[string]string{}, groupCs: map[string]map[int64]bool{}}
	le.eval(fn, e, subst)
	le.collect = false
	var keys []string
	for k := range le.leaves {
		keys = append(keys, k)
	}
	sort.Strings(keys)
	doms := make([][]int64, len(keys))
	total := 1
	for i, k := range keys {
		if le.leaves[k] {
			doms[i] = []int64{0, 1}
		} else {
			d, found := domainFor(k, domains)
			if !found {
				return false, "no domain for leaf " + k
			}
			doms[i] = d
		}
		total *= len(doms[i])
		if total > 5_000_000 || total == 0 {
			return false, "domain product too large or empty"
		}
	}
	idx := make([]int, len(keys))
	le.val = map[string]lval{}
	for {
		env := map[string]int64{}
		for i, k := range keys {
			if le.leaves[k] {
				le.val[k] = lval{isBool: true, b: idx[i] == 1, ok: true}
				env[k] = int64(idx[i])
			} else {
				le.val[k] = lval{n: doms[i][idx[i]], ok: true}
				env[k] = doms[i][idx[i]]
			}
		}
		v := le.eval(fn, e, subst)
		if !v.ok {
			return false, le.giveUp
		}
		cb(env, v.n, v.b)
		i := 0
		for ; i < len(keys); i++ {
			idx[i]++
			if idx[i] < len(doms[i]) {
				break
			}
			idx[i] = 0
		}
		if i == len(keys) {
			break
		}
	}
	return true, ""
}

// EnvLookup finds the value of the leaf whose key ends in suffix.
func EnvLookup(env map[string]int64, suffix string) (int64, bool) {
	for k, v := range env {
		if strings.HasSuffix(k, suffix) {
			return v, true
		}
	}
	return 0, false
}

// TabulateFunc evaluates a loop-free, side-effect-free function for every
// combination of the given leaf values by following its control-flow graph:
// at each branch the condition is evaluated for the valuation, local
// definitions "x := e" / "x = e" are recorded, and the (single) result of
// the return statement reached is reported.  Anything else (loops, calls
// that are not one-line repository functions, multi-value returns) makes
// the tabulation undecided.
func (p *Program) TabulateFunc(fn *Func, domains map[string][]int64, cb func(env map[string]int64, n int64, b bool)) (decided bool, reason string) {
	g := fn.Graph()
	for _, v := range g.Vs {
		if g.InLoop(v) {
			return false, "the function contains a loop"
		}
	}
	// leaves: collect over all conditions, right-hand sides and results
	le := &logicEnv{prog: p, leaves: map[string]bool{}, consts: map[int64]bool{}, collect: true, bitops: true,
		parent: map[string]string{}, groupCs: map[string]map[int64]bool{}}
	locals := map[types.Object]bool{}
	for _, v := range g.Vs {
		if vs, ok := v.AST.(*ast.ValueSpec); ok {
			for _, n := range vs.Names {
				if o := fn.Info().ObjectOf(n); o != nil {
					locals[o] = true
				}
			}
		}
		if as, ok := v.AST.(*ast.AssignStmt); ok {
			for _, l := range as.Lhs {
				if id, ok := l.(*ast.Ident); ok {
					if o := fn.Info().ObjectOf(id); o != nil {
						locals[o] = true
					}
				}
			}
		}
	}
	subst0 := map[types.Object]ast.Expr{}
	for o := range locals {
		subst0[o] = &ast.BasicLit{Kind: token.INT, Value: "0"}
	}
	for _, v := range g.Vs {
		switch s := v.AST.(type) {
		case *ast.AssignStmt:
			for _, r := range s.Rhs {
				le.eval(fn, r, subst0)
			}
		case *ast.ReturnStmt:
			for _, r := range s.Results {
				le.eval(fn, r, subst0)
			}
		case *ast.ValueSpec:
			for _, r := range s.Values {
				le.eval(fn, r, subst0)
			}
		}
		if v.Cond != nil && v.Cond.Expr != nil {
			le.eval(fn, v.Cond.Expr, subst0)
			if v.Cond.Tag != nil {
				le.eval(fn, v.Cond.Tag, subst0)
			}
		}
	}
	le.collect = false
	var keys []string
	for k := range le.leaves {
		keys = append(keys, k)
	}
	sort.Strings(keys)
	doms := make([][]int64, len(keys))
	total := 1
	for i, k := range keys {
		if le.leaves[k] {
			doms[i] = []int64{0, 1}
		} else {
			d, found := domainFor(k, domains)
			if !found {
				return false, "no domain for leaf " + k
			}
			doms[i] = d
		}
		total *= len(doms[i])
		if total > 5_000_000 || total == 0 {
			return false, "domain product too large or empty"
		}
	}
	idx := make([]int, len(keys))
	le.val = map[string]lval{}
	for {
		env := map[string]int64{}
		for i, k := range keys {
			if le.leaves[k] {
				le.val[k] = lval{isBool: true, b: idx[i] == 1, ok: true}
				env[k] = int64(idx[i])
			} else {
				le.val[k] = lval{n: doms[i][idx[i]], ok: true}
				env[k] = doms[i][idx[i]]
			}
		}
		// walk
		subst := map[types.Object]ast.Expr{}
		cur := g.Entry
		steps := 0
		for {
			steps++
			if steps > 10000 || cur == nil {
				return false, "walk did not reach a return"
			}
			if rs, ok := cur.AST.(*ast.ReturnStmt); ok {
				if len(rs.Results) != 1 {
					return false, "return with other than one result"
				}
				v := le.eval(fn, rs.Results[0], subst)
				if !v.ok {
					return false, "result not evaluable: " + le.giveUp
				}
				cb(env, v.n, v.b)
				break
			}
			if as, ok := cur.AST.(*ast.AssignStmt); ok {
				opOf := map[token.Token]token.Token{token.ADD_ASSIGN: token.ADD, token.SUB_ASSIGN: token.SUB, token.AND_ASSIGN: token.AND,
					token.OR_ASSIGN: token.OR, token.XOR_ASSIGN: token.XOR, token.SHL_ASSIGN: token.SHL, token.SHR_ASSIGN: token.SHR, token.AND_NOT_ASSIGN: token.AND_NOT}
				binop, isOp := opOf[as.Tok]
				if len(as.Lhs) != len(as.Rhs) || (as.Tok != token.ASSIGN && as.Tok != token.DEFINE && !isOp) {
					return false, "assignment not understood: " + p.Src(as)
				}
				for i, l := range as.Lhs {
					id, ok := l.(*ast.Ident)
					if !ok {
						return false, "assignment to a non-variable: " + p.Src(as)
					}
					rhs := as.Rhs[i]
					if isOp {
						// x op= e is x = x op e
						rhs = &ast.BinaryExpr{X: id, Op: binop, Y: &ast.ParenExpr{X: as.Rhs[i]}}
					}
					v := le.eval(fn, rhs, subst)
					if !v.ok {
						return false, "value not evaluable: " + p.Src(as.Rhs[i])
					}
					var lit ast.Expr
					if v.isBool {
						if v.b {
							lit = &ast.BinaryExpr{X: &ast.BasicLit{Kind: token.INT, Value: "0"}, Op: token.EQL, Y: &ast.BasicLit{Kind: token.INT, Value: "0"}}
						} else {
							lit = FalseExpr
						}
					} else {
						lit = &ast.BasicLit{Kind: token.INT, Value: strconv.FormatInt(v.n, 10)}
						if v.n < 0 {
							lit = &ast.UnaryExpr{Op: token.SUB, X: &ast.BasicLit{Kind: token.INT, Value: strconv.FormatInt(-v.n, 10)}}
						}
					}
					if o := fn.Info().ObjectOf(id); o != nil {
						subst[o] = lit
					}
				}
			}
			if vs, ok := cur.AST.(*ast.ValueSpec); ok {
				// var x = e / var x T (declaration blocks are one vertex per spec)
				if len(vs.Values) != 0 && len(vs.Values) != len(vs.Names) {
					return false, "declaration not understood: " + p.Src(vs)
				}
				for i, id := range vs.Names {
					o := fn.Info().ObjectOf(id)
					if o == nil {
						continue
					}
					if len(vs.Values) == 0 {
						if b, isB := o.Type().Underlying().(*types.Basic); isB && b.Info()&types.IsBoolean != 0 {
							subst[o] = FalseExpr
						} else if isB && b.Info()&types.IsInteger != 0 {
							subst[o] = &ast.BasicLit{Kind: token.INT, Value: "0"}
						} else {
							return false, "declaration of a non-scalar: " + p.Src(vs)
						}
						continue
					}
					v := le.eval(fn, vs.Values[i], subst)
					if !v.ok {
						return false, "value not evaluable: " + p.Src(vs.Values[i])
					}
					var lit ast.Expr
					if v.isBool {
						if v.b {
							lit = &ast.BinaryExpr{X: &ast.BasicLit{Kind: token.INT, Value: "0"}, Op: token.EQL, Y: &ast.BasicLit{Kind: token.INT, Value: "0"}}
						} else {
							lit = FalseExpr
						}
					} else {
						lit = &ast.BasicLit{Kind: token.INT, Value: strconv.FormatInt(v.n, 10)}
						if v.n < 0 {
							lit = &ast.UnaryExpr{Op: token.SUB, X: &ast.BasicLit{Kind: token.INT, Value: strconv.FormatInt(-v.n, 10)}}
						}
					}
					subst[o] = lit
				}
			}
			var next *V
			if cur.Cond != nil && cur.Cond.Expr != nil {
				var take bool
				if cur.Cond.Tag != nil {
					l := le.eval(fn, cur.Cond.Tag, subst)
					r := le.eval(fn, cur.Cond.Expr, subst)
					if !l.ok || !r.ok {
						return false, "switch not evaluable"
					}
					take = l.n == r.n
				} else {
					v := le.eval(fn, cur.Cond.Expr, subst)
					if !v.ok {
						return false, "condition not evaluable: " + p.Src(cur.Cond.Expr) + " " + le.giveUp
					}
					take = v.b
				}
				want := EdgeFalse
				if take {
					want = EdgeTrue
				}
				for _, e := range cur.Succs {
					if e.Label == want {
						next = e.To
					}
				}
			} else if cur.Cond != nil {
				return false, "branch without condition (type switch, select or range)"
			} else {
				if len(cur.Succs) != 1 {
					if cur == g.Exit {
						return false, "fell off the end"
					}
					return false, "unexpected fan-out at " + p.Pos(cur.AST.Pos())
				}
				next = cur.Succs[0].To
			}
			cur = next
		}
		i := 0
		for ; i < len(keys); i++ {
			idx[i]++
			if idx[i] < len(doms[i]) {
				break
			}
			idx[i] = 0
		}
		if i == len(keys) {
			break
		}
	}
	return true, ""
}

// domainFor finds the domain of a leaf: by suffix of its key (".Colors") or
// by the name of the local variable the key starts with ("acc" for "acc@12",
// "first" for "first@3[i@5]").
func domainFor(k string, domains map[string][]int64) ([]int64, bool) {
	var names []string
	for n := range domains {
		names = append(names, n)
	}
	sort.Strings(names)
	for _, n := range names {
		if strings.HasSuffix(k, n) || strings.HasPrefix(k, n+"@") {
			return domains[n], true
		}
	}
	return nil, false
}

// EnvGet finds the value of the leaf that domainFor would match with name.
func EnvGet(env map[string]int64, name string) (int64, bool) {
	for k, v := range env {
		if strings.HasSuffix(k, name) || strings.HasPrefix(k, name+"@") {
			return v, true
		}
	}
	return 0, false
}

// pureLocalDef returns the definition of a local variable of fn that is
// defined exactly once, by := with an expression built from literals,
// conversions, len and arithmetic over parameters and locals that are
// themselves never assigned again (and whose address is not taken); nil
// otherwise.
func pureLocalDef(fn *Func, obj types.Object) ast.Expr {
	v, ok := obj.(*types.Var)
	if !ok || v.IsField() || v.Pkg() == nil || v.Parent() == nil || v.Parent() == v.Pkg().Scope() || fn.Decl.Body == nil {
		return nil
	}
	if b, isB := v.Type().Underlying().(*types.Basic); !isB || b.Info()&(types.IsInteger|types.IsBoolean) == 0 {
		return nil
	}
	info := fn.Info()
	defs := AssignsTo(info, fn.Decl, obj)
	if len(defs) != 1 {
		return nil
	}
	as, ok := defs[0].(*ast.AssignStmt)
	if !ok || as.Tok != token.DEFINE || len(as.Lhs) != len(as.Rhs) {
		return nil
	}
	var rhs ast.Expr
	for i, l := range as.Lhs {
		if ObjOf(info, l) == obj {
			rhs = as.Rhs[i]
		}
	}
	if rhs == nil {
		return nil
	}
	addrTaken := func(o types.Object) bool {
		taken := false
		ast.Inspect(fn.Decl.Body, func(n ast.Node) bool {
			if u, ok := n.(*ast.UnaryExpr); ok && u.Op == token.AND && ObjOf(info, u.X) == o {
				taken = true
			}
			return !taken
		})
		return taken
	}
	if addrTaken(obj) {
		return nil
	}
	pure := true
	arith := false
	var walk func(e ast.Expr)
	walk = func(e ast.Expr) {
		switch x := ast.Unparen(e).(type) {
		case *ast.BasicLit:
		case *ast.Ident:
			o := info.ObjectOf(x)
			switch ov := o.(type) {
			case *types.Const, *types.Nil:
			case *types.Var:
				if ov.IsField() || ov.Parent() == nil || ov.Pkg() == nil || ov.Parent() == ov.Pkg().Scope() {
					pure = false
					return
				}
				// a parameter (no definition in the body) or a local defined once
				if n := len(AssignsTo(info, fn.Decl, ov)); n > 1 || addrTaken(ov) {
					pure = false
				}
			default:
				pure = false
			}
		case *ast.BinaryExpr:
			arith = true
			walk(x.X)
			walk(x.Y)
		case *ast.UnaryExpr:
			if x.Op == token.AND || x.Op == token.ARROW {
				pure = false
				return
			}
			walk(x.X)
		case *ast.CallExpr:
			if tv, isT := info.Types[x.Fun]; isT && tv.IsType() && len(x.Args) == 1 {
				walk(x.Args[0])
				return
			}
			if id, isID := ast.Unparen(x.Fun).(*ast.Ident); isID && len(x.Args) == 1 {
				if b, isB := info.ObjectOf(id).(*types.Builtin); isB && b.Name() == "len" {
					arith = true
					if aid, isArg := ast.Unparen(x.Args[0]).(*ast.Ident); isArg {
						if ov, isVar := info.ObjectOf(aid).(*types.Var); isVar && !ov.IsField() && len(AssignsTo(info, fn.Decl, ov)) <= 1 && !addrTaken(ov) {
							return
						}
					}
				}
			}
			pure = false
		default:
			pure = false
		}
	}
	walk(rhs)
	if !pure || !arith {
		return nil
	}
	return rhs
}
