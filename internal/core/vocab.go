package core

import (
	"crypto/sha256"
	"encoding/hex"
	"encoding/json"
	"fmt"
	"go/ast"
	"go/parser"
	"go/token"
	"go/types"
	"os"
	"path/filepath"
	"reflect"
	"regexp"
	"runtime"
	"sort"
	"strconv"
	"strings"
	"sync"
)

// The vocabulary guard.
//
// Many rules find their constructs by the names the repository gives them: a
// field called inStream, a local called wenc, a type called posWriter, a
// table keyed by function names.  A consistent renaming leaves the behaviour
// as it is, but such a rule then looks for a name that is not there and may
// report what it finds instead as a violation.  vocab.json (written by
// "pdfverif vocab" on the reviewed tree, committed, never written by a check)
// records, for every rule function, the repository names that occur in its
// string literals and in those of the functions it calls, and for every
// owner of names in the repository (a package, a struct type, a function) the
// names it declared on the reviewed tree.  A name was renamed on the current
// tree when an owner that still exists no longer declares it and declares
// names it did not declare before.  An obligation that fails while a name of
// its rule's vocabulary was renamed is not decided: the failure is reported
// as UNRECOGNISED together with the renamed names.  Names that were only
// removed (nothing new declared by the owner) do not count, so that a change
// that deletes a check together with its variable is still reported.

// Vocab is the content of vocab.json.
type Vocab struct {
	// SrcHash identifies the checker sources the file was made from: the
	// per-obligation entries are addressed by line and only used for them.
	SrcHash string                `json:"src_hash"`
	Funcs   map[string]*VocabFunc `json:"funcs"`
	// Checks holds one entry per Check call of the checker: the names in
	// the obligation's own literals.
	Checks []*VocabCheck                `json:"checks"`
	Owners map[string]map[string]string `json:"owners"`
}

// VocabCheck is one Check call in the checker sources.
type VocabCheck struct {
	File   string   `json:"file"`
	Start  int      `json:"start"`
	End    int      `json:"end"`
	Tokens []string `json:"tokens,omitempty"`
	Calls  []string `json:"calls,omitempty"`
}

// VocabFunc is one function of the checker: the repository names in its
// literals and the checker functions it refers to.
type VocabFunc struct {
	Tokens []string `json:"tokens,omitempty"`
	Calls  []string `json:"calls,omitempty"`
	// the same without what stands inside the Check calls of the function
	// (each obligation has its own entry in Checks)
	OuterTokens []string `json:"outer_tokens,omitempty"`
	OuterCalls  []string `json:"outer_calls,omitempty"`
	HasChecks   bool     `json:"has_checks,omitempty"`
}

// Decls lists the declared names of every repository package loaded with
// syntax, by owner: "<pkg>#funcs", "<pkg>#types", "<pkg>#vars",
// "<pkg>.<T>#fields", "<pkg>.<T>#methods", "<func key>#locals".  Every name
// comes with the shape of what it names (a short hash of its type with the
// names of repository types left out; several, comma-separated, when the name
// is declared more than once by the owner): a renamed variable keeps its
// shape, a new variable that replaces a deleted one of another type does not.
func (p *Program) Decls() map[string]map[string]string {
	sets := map[string]map[string]map[string]bool{}
	add := func(owner, name, shape string) {
		if name == "_" || name == "" {
			return
		}
		if sets[owner] == nil {
			sets[owner] = map[string]map[string]bool{}
		}
		if sets[owner][name] == nil {
			sets[owner][name] = map[string]bool{}
		}
		sets[owner][name][shape] = true
	}
	touch := func(owner string) {
		if sets[owner] == nil {
			sets[owner] = map[string]map[string]bool{}
		}
	}
	for _, pkg := range p.Pkgs {
		if len(pkg.Syntax) == 0 || !strings.HasPrefix(pkg.PkgPath, ModulePath) || pkg.TypesInfo == nil {
			continue
		}
		info := pkg.TypesInfo
		shapeOfIdent := func(id *ast.Ident) string {
			return objShape(info.Defs[id])
		}
		sp := ShortPkg(pkg.PkgPath)
		touch(sp + "#funcs")
		touch(sp + "#types")
		touch(sp + "#vars")
		for _, file := range pkg.Syntax {
			if strings.HasSuffix(p.Fset.Position(file.Pos()).Filename, "_test.go") {
				continue
			}
			for _, d := range file.Decls {
				switch d := d.(type) {
				case *ast.FuncDecl:
					obj, _ := info.Defs[d.Name].(*types.Func)
					if obj == nil {
						continue
					}
					key := FuncKey(obj)
					// a renamed function keeps its signature and the form of its body
					if d.Recv == nil {
						add(sp+"#funcs", d.Name.Name, objShape(obj))
						add(sp+"#funcs", d.Name.Name, structHash(d.Body))
					} else if tn := recvTypeName(d); tn != "" {
						add(sp+"."+tn+"#methods", d.Name.Name, objShape(obj))
						add(sp+"."+tn+"#methods", d.Name.Name, structHash(d.Body))
					}
					owner := key + "#locals"
					touch(owner)
					for ord, ld := range localDefs(info, d) {
						// the ordinal and the form of the first declaration tell renamed locals of one shape apart
						if sets[owner] == nil || sets[owner][ld.id.Name] == nil {
							add(owner, ld.id.Name, fmt.Sprintf("#%03d", ord))
							add(owner, ld.id.Name, sigHash(ld.sig))
						}
						add(owner, ld.id.Name, ld.shape)
					}
				case *ast.GenDecl:
					for _, s := range d.Specs {
						switch s := s.(type) {
						case *ast.TypeSpec:
							add(sp+"#types", s.Name.Name, "type")
							tn := s.Name.Name
							switch t := s.Type.(type) {
							case *ast.StructType:
								touch(sp + "." + tn + "#fields")
								for _, f := range t.Fields.List {
									for _, n := range f.Names {
										add(sp+"."+tn+"#fields", n.Name, shapeOfIdent(n))
									}
									if len(f.Names) == 0 {
										add(sp+"."+tn+"#fields", embeddedName(f.Type), "embedded")
									}
								}
							case *ast.InterfaceType:
								touch(sp + "." + tn + "#methods")
								for _, f := range t.Methods.List {
									for _, n := range f.Names {
										add(sp+"."+tn+"#methods", n.Name, shapeOfIdent(n))
									}
								}
							}
						case *ast.ValueSpec:
							for _, n := range s.Names {
								add(sp+"#vars", n.Name, shapeOfIdent(n))
							}
						}
					}
				}
			}
		}
	}
	out := map[string]map[string]string{}
	for o, names := range sets {
		out[o] = map[string]string{}
		for n, shapes := range names {
			var l []string
			for sh := range shapes {
				l = append(l, sh)
			}
			sort.Strings(l)
			out[o][n] = strings.Join(l, ",")
		}
	}
	return out
}

var repoNameRe = regexp.MustCompile(`§\.[A-Za-z_][A-Za-z0-9_]*`)

// objShape: kind and type of a declared object, repository type names left out.
func objShape(o types.Object) string {
	if o == nil {
		return "?"
	}
	kind := "?"
	switch o.(type) {
	case *types.Var:
		kind = "v"
	case *types.Const:
		kind = "c"
	case *types.TypeName:
		return "t"
	case *types.Label:
		return "l"
	case *types.Func:
		kind = "f"
	case *types.PkgName:
		return "p"
	}
	if o.Type() == nil {
		return kind
	}
	s := typeShape(o.Type(), 0)
	h := sha256.Sum256([]byte(s))
	return kind + hex.EncodeToString(h[:4])
}

func recvTypeName(d *ast.FuncDecl) string {
	if d.Recv == nil || len(d.Recv.List) == 0 {
		return ""
	}
	t := d.Recv.List[0].Type
	for {
		switch x := t.(type) {
		case *ast.StarExpr:
			t = x.X
		case *ast.ParenExpr:
			t = x.X
		case *ast.IndexExpr:
			t = x.X
		case *ast.IndexListExpr:
			t = x.X
		case *ast.Ident:
			return x.Name
		default:
			return ""
		}
	}
}

func embeddedName(t ast.Expr) string {
	for {
		switch x := t.(type) {
		case *ast.StarExpr:
			t = x.X
		case *ast.SelectorExpr:
			return x.Sel.Name
		case *ast.IndexExpr:
			t = x.X
		case *ast.Ident:
			return x.Name
		default:
			return ""
		}
	}
}

var (
	verbRe  = regexp.MustCompile(`%[-+# 0-9.*\[\]]*[a-zA-Z]`)
	identRe = regexp.MustCompile(`[A-Za-z_][A-Za-z0-9_]*`)
)

// reporting calls whose direct string arguments are prose, not names to look for
var proseCalls = map[string]bool{"Site": true, "Fail": true, "FailAt": true, "Unrec": true, "Shape": true, "Require": true, "Fact": true,
	"Undecided": true, "Errorf": true, "Sprintf": true, "Printf": true, "Println": true, "Fprintf": true, "giveUp": true}

// markProse marks the string literals of a message argument (a literal, or
// literals joined by +) as prose.
func markProse(e ast.Expr, prose map[*ast.BasicLit]bool) {
	switch x := e.(type) {
	case *ast.BasicLit:
		prose[x] = true
	case *ast.ParenExpr:
		markProse(x.X, prose)
	case *ast.BinaryExpr:
		if x.Op == token.ADD {
			markProse(x.X, prose)
			markProse(x.Y, prose)
		}
	}
}

var stopWords = map[string]bool{"a": true, "an": true, "as": true, "at": true, "be": true, "by": true, "in": true, "it": true, "its": true, "no": true,
	"on": true, "to": true, "of": true, "the": true, "is": true, "are": true, "and": true, "or": true, "not": true, "with": true, "from": true,
	"that": true, "this": true, "must": true, "which": true, "was": true, "has": true, "have": true, "does": true, "than": true, "when": true, "only": true}

// isProse: a literal with an English function word standing as a word of its
// own is a sentence (a reason in a table, a note), not a name to look for.
func isProse(s string) bool {
	for _, w := range strings.Fields(s) {
		if stopWords[strings.Trim(w, ".,;:()")] {
			return true
		}
	}
	return false
}

// BuildVocab reads the sources of the checker (dir/internal/props and
// dir/internal/core) and the declarations of the loaded program.
func BuildVocab(verifDir string, prog *Program) (*Vocab, error) {
	owners := prog.Decls()
	declared := map[string]bool{}
	for _, names := range owners {
		for n := range names {
			declared[n] = true
		}
	}
	v := &Vocab{Funcs: map[string]*VocabFunc{}, Owners: owners}
	fset := token.NewFileSet()
	type unit struct {
		name string
		node ast.Node
	}
	var units []unit
	top := map[string]bool{}
	topVar := map[string]bool{}
	for _, sub := range []string{"internal/props", "internal/core"} {
		pkgs, err := parser.ParseDir(fset, filepath.Join(verifDir, sub), func(fi os.FileInfo) bool { return !strings.HasSuffix(fi.Name(), "_test.go") }, 0)
		if err != nil {
			return nil, err
		}
		for _, pkg := range pkgs {
			for _, f := range pkg.Files {
				for _, d := range f.Decls {
					switch d := d.(type) {
					case *ast.FuncDecl:
						if d.Body != nil {
							units = append(units, unit{d.Name.Name, d})
							top[d.Name.Name] = true
						}
					case *ast.GenDecl:
						if d.Tok != token.VAR && d.Tok != token.CONST {
							continue
						}
						for _, s := range d.Specs {
							vs := s.(*ast.ValueSpec)
							for _, n := range vs.Names {
								if n.Name == "_" {
									continue
								}
								units = append(units, unit{n.Name, vs})
								top[n.Name] = true
								topVar[n.Name] = true
							}
						}
					}
				}
			}
		}
	}
	scan := func(node ast.Node, self string, skipChecks bool) (tokens, callees []string) {
		toks := map[string]bool{}
		calls := map[string]bool{}
		prose := map[*ast.BasicLit]bool{}
		ast.Inspect(node, func(n ast.Node) bool {
			switch n := n.(type) {
			case *ast.CallExpr:
				if se, ok := n.Fun.(*ast.SelectorExpr); ok && skipChecks && n != node && se.Sel.Name == "Check" && len(n.Args) == 4 {
					return false
				}
				name := ""
				switch f := n.Fun.(type) {
				case *ast.SelectorExpr:
					name = f.Sel.Name
				case *ast.Ident:
					name = f.Name
				}
				if top[name] && !topVar[name] && name != self && !runFnRe.MatchString(name) {
					calls[name] = true
				}
				// a function of the checker handed on as a value
				for _, a := range n.Args {
					if id, ok := a.(*ast.Ident); ok && top[id.Name] && !topVar[id.Name] && id.Name != self && !runFnRe.MatchString(id.Name) {
						calls[id.Name] = true
					}
				}
				if proseCalls[name] {
					for _, a := range n.Args {
						markProse(a, prose)
					}
				}
				if name == "Check" && len(n.Args) == 4 {
					markProse(n.Args[2], prose)
				}
			case *ast.Ident:
				// a table or constant of the checker that is referred to
				if topVar[n.Name] && n.Name != self {
					calls[n.Name] = true
				}
			case *ast.BasicLit:
				if n.Kind != token.STRING || prose[n] {
					return true
				}
				s, err := strconv.Unquote(n.Value)
				if err != nil {
					return true
				}
				if isProse(s) {
					return true
				}
				s = verbRe.ReplaceAllString(s, " ")
				for _, t := range identRe.FindAllString(s, -1) {
					if declared[t] {
						toks[t] = true
					}
				}
			}
			return true
		})
		for t := range toks {
			tokens = append(tokens, t)
		}
		for c := range calls {
			callees = append(callees, c)
		}
		return uniqSorted(tokens), uniqSorted(callees)
	}
	for _, u := range units {
		vf := v.Funcs[u.name]
		if vf == nil {
			vf = &VocabFunc{}
			v.Funcs[u.name] = vf
		}
		t, cl := scan(u.node, u.name, false)
		vf.Tokens = uniqSorted(append(vf.Tokens, t...))
		vf.Calls = uniqSorted(append(vf.Calls, cl...))
		t, cl = scan(u.node, u.name, true)
		vf.OuterTokens = uniqSorted(append(vf.OuterTokens, t...))
		vf.OuterCalls = uniqSorted(append(vf.OuterCalls, cl...))
		ast.Inspect(u.node, func(n ast.Node) bool {
			call, ok := n.(*ast.CallExpr)
			if !ok {
				return true
			}
			if se, ok := call.Fun.(*ast.SelectorExpr); !ok || se.Sel.Name != "Check" || len(call.Args) != 4 {
				return true
			}
			vf.HasChecks = true
			t, cl := scan(call, "", false)
			v.Checks = append(v.Checks, &VocabCheck{File: filepath.Base(fset.Position(call.Pos()).Filename),
				Start: fset.Position(call.Pos()).Line, End: fset.Position(call.End()).Line, Tokens: t, Calls: cl})
			return true
		})
	}
	sort.Slice(v.Checks, func(i, j int) bool {
		a, b := v.Checks[i], v.Checks[j]
		if a.File != b.File {
			return a.File < b.File
		}
		return a.Start < b.Start
	})
	v.SrcHash = checkerSrcHash(verifDir)
	// keep only the owners that declare a name some rule looks for
	used := map[string]bool{}
	for _, f := range v.Funcs {
		for _, t := range f.Tokens {
			used[t] = true
		}
	}
	for _, ch := range v.Checks {
		for _, t := range ch.Tokens {
			used[t] = true
		}
	}
	for o, names := range v.Owners {
		keep := false
		for n := range names {
			if used[n] {
				keep = true
				break
			}
		}
		if !keep {
			delete(v.Owners, o)
		}
	}
	return v, nil
}

// checkerSrcHash hashes the sources of the checker's rule and engine packages.
func checkerSrcHash(verifDir string) string {
	h := sha256.New()
	for _, sub := range []string{"internal/props", "internal/core"} {
		names, _ := filepath.Glob(filepath.Join(verifDir, sub, "*.go"))
		sort.Strings(names)
		for _, n := range names {
			b, err := os.ReadFile(n)
			if err != nil {
				continue
			}
			fmt.Fprintf(h, "%s %d\n", filepath.Base(n), len(b))
			h.Write(b)
		}
	}
	return hex.EncodeToString(h.Sum(nil))[:24]
}

func uniqSorted(s []string) []string {
	sort.Strings(s)
	out := s[:0]
	for i, x := range s {
		if i == 0 || x != s[i-1] {
			out = append(out, x)
		}
	}
	return out
}

// WriteVocab writes vocab.json.
func WriteVocab(path string, v *Vocab) error {
	b, err := json.Marshal(v)
	if err != nil {
		return err
	}
	// one owner or function per line keeps diffs readable
	s := strings.ReplaceAll(string(b), `],"`, "],\n\"")
	s = strings.ReplaceAll(s, `},"`, "},\n\"")
	return os.WriteFile(path, []byte(s+"\n"), 0o644)
}

var (
	vocabOnce sync.Once
	vocab     *Vocab
)

func loadVocab(dir string) *Vocab {
	vocabOnce.Do(func() {
		if os.Getenv("PDFVERIF_NOVOCAB") != "" {
			return
		}
		path := filepath.Join(dir, "vocab.json")
		if p := os.Getenv("PDFVERIF_VOCAB"); p != "" {
			path = p // development only: the vocabulary of a copy of the checker sources
		}
		b, err := os.ReadFile(path)
		if err != nil {
			return
		}
		var v Vocab
		if json.Unmarshal(b, &v) == nil {
			vocab = &v
		}
	})
	return vocab
}

// renamedNames returns, for every name that was renamed since the reviewed
// tree, the owners in which it was (computed once per program).
func (c *Ctx) renamedNames() map[string][]string {
	c.renOnce.Do(func() {
		c.renamed = map[string][]string{}
		v := loadVocab(c.VerifDir)
		if v == nil || c.Prog == nil || c.Prog.Pkgs == nil {
			return
		}
		cur := c.Prog.Decls()
		for owner, base := range v.Owners {
			now, ok := cur[owner]
			if !ok {
				continue // the owner itself is gone or not loaded: its name is what changed, if anything
			}
			// the shapes of the names the owner did not declare before
			fresh := map[string]bool{}
			for n, shapes := range now {
				if _, had := base[n]; !had {
					for _, sh := range matchKeys(shapes) {
						fresh[sh] = true
					}
				}
			}
			if len(fresh) == 0 {
				continue
			}
			for n, shapes := range base {
				if _, has := now[n]; has {
					continue
				}
				for _, sh := range matchKeys(shapes) {
					if fresh[sh] {
						c.renamed[n] = append(c.renamed[n], owner)
						break
					}
				}
			}
		}
		// locals that were given their reviewed names back by position only (RestoreLocalNames)
		for n, owners := range c.Prog.GuessedNames {
			c.renamed[n] = append(c.renamed[n], owners...)
		}
		for n := range c.renamed {
			sort.Strings(c.renamed[n])
		}
	})
	return c.renamed
}

// ruleFrame is a checker function on the call stack.
type ruleFrame struct {
	Fn   string
	File string
	Line int
}

// ruleFrames names the checker functions on the call stack between the
// property's run function and Check (innermost first).
func ruleFrames(skip int) []ruleFrame {
	pcs := make([]uintptr, 64)
	n := runtime.Callers(skip, pcs)
	frames := runtime.CallersFrames(pcs[:n])
	var out []ruleFrame
	for {
		fr, more := frames.Next()
		fn := fr.Function
		if i := strings.Index(fn, "pdfverif/internal/props."); i >= 0 {
			name := fn[i+len("pdfverif/internal/props."):]
			if strings.HasPrefix(name, "(") { // method: (*T).name
				if j := strings.Index(name, ")."); j >= 0 {
					name = name[j+2:]
				}
			}
			if j := strings.IndexByte(name, '.'); j >= 0 {
				name = name[:j]
			}
			if j := strings.IndexByte(name, '['); j >= 0 {
				name = name[:j]
			}
			out = append(out, ruleFrame{name, filepath.Base(fr.File), fr.Line})
		}
		if !more {
			break
		}
	}
	return out
}

var runFnRe = regexp.MustCompile(`^(run[CX][0-9][0-9]|Run|thorough.*|init)$`)

var (
	srcHashOnce sync.Once
	srcHashNow  string
)

// vocabRenamed lists the renamed names in the vocabulary of an obligation
// ("name (owner)"), sorted.  frames[0] is the function that called Check.
func (c *Ctx) vocabRenamed(frames []ruleFrame) []string {
	ren := c.renamedNames()
	if len(ren) == 0 || len(frames) == 0 {
		return nil
	}
	v := loadVocab(c.VerifDir)
	seen := map[string]bool{}
	toks := map[string]bool{}
	var visit func(name string)
	visit = func(name string) {
		if seen[name] {
			return
		}
		seen[name] = true
		f := v.Funcs[name]
		if f == nil {
			return
		}
		for _, t := range f.Tokens {
			toks[t] = true
		}
		for _, cal := range f.Calls {
			visit(cal)
		}
	}
	// the obligation's own Check call, when the recorded lines are those of the running sources
	srcHashOnce.Do(func() {
		dir := c.VerifDir
		if d := os.Getenv("PDFVERIF_SRCDIR"); d != "" {
			dir = d // development only
		}
		srcHashNow = checkerSrcHash(dir)
	})
	var own *VocabCheck
	if v.SrcHash != srcHashNow && !c.staleNoted {
		c.staleNoted = true
		c.Notes = append(c.Notes, "vocab.json was not made from the running checker sources (run tools/gencounts.sh): the vocabulary of a whole rule function is used instead of that of the single obligation")
	}
	if v.SrcHash == srcHashNow {
		for _, ch := range v.Checks {
			if ch.File == frames[0].File && ch.Start <= frames[0].Line && frames[0].Line <= ch.End {
				if own == nil || ch.End-ch.Start < own.End-own.Start {
					own = ch
				}
			}
		}
	}
	// direct: the names the obligation and its rule function spell out themselves (the
	// functions they are about), without those of the helpers they call
	direct := map[string]bool{}
	if own != nil {
		for _, t := range own.Tokens {
			toks[t] = true
			direct[t] = true
		}
		for _, cal := range own.Calls {
			visit(cal)
		}
	}
	for _, fr := range frames {
		// the run function of a property calls every rule: it counts as a whole only when the
		// obligation's own Check call is not known
		if runFnRe.MatchString(fr.Fn) && own != nil {
			continue
		}
		f := v.Funcs[fr.Fn]
		if f == nil {
			continue
		}
		if own != nil && f.HasChecks {
			// a rule function with several obligations: what it says outside of them
			// belongs to all, what it says inside another one does not belong to this one
			for _, t := range f.OuterTokens {
				toks[t] = true
				direct[t] = true
			}
			for _, cal := range f.OuterCalls {
				visit(cal)
			}
			continue
		}
		visit(fr.Fn)
		for _, t := range f.Tokens {
			direct[t] = true
		}
	}
	// the functions that are kept out of the normalisation (inlining) of anchor functions are
	// named in one table: when one of them goes by another name, the normalised form of every
	// caller differs from the reviewed one
	if f := v.Funcs["anchorNames"]; f != nil {
		for _, t := range f.Tokens {
			if owners, ok := ren[t]; ok {
				for _, o := range owners {
					if strings.HasSuffix(o, "#funcs") || strings.HasSuffix(o, "#methods") {
						toks[t] = true
					}
				}
			}
		}
	}
	var out []string
	for t := range toks {
		owners := ren[t]
		// a renamed local counts when the rule names the function it is local to
		var rel []string
		for _, o := range owners {
			if fk, isLocal := strings.CutSuffix(o, "#locals"); isLocal {
				base := fk
				if i := strings.LastIndexByte(base, '.'); i >= 0 {
					base = base[i+1:]
				}
				if !direct[base] {
					continue
				}
			}
			rel = append(rel, o)
		}
		if len(rel) > 0 {
			o := rel[0]
			if len(rel) > 1 {
				o += fmt.Sprintf(" and %d more", len(rel)-1)
			}
			out = append(out, t+" ("+o+")")
		}
	}
	sort.Strings(out)
	return out
}

// Guard runs one rule function of a property.  An anchor the rule resolves
// before its first obligation (a function, type or field it names) may be
// gone under that name: that is recorded as an unrecognised construct, and the
// other rules of the property still run.
func (c *Ctx) Guard(f func()) {
	defer func() {
		r := recover()
		if r == nil {
			return
		}
		var msg string
		switch e := r.(type) {
		case AnchorError:
			msg = e.Error()
		case UndecidedError:
			msg = e.Error()
		default:
			panic(r)
		}
		name := "rule"
		for _, fr := range ruleFrames(3) {
			if !runFnRe.MatchString(fr.Fn) {
				name = fr.Fn
				break
			}
		}
		o := &Ob{Rule: c.Prop + "-ANCHOR", Key: name, Desc: "the constructs a rule names must exist under those names for the rule to decide anything", Status: Discharged, Evals: 1}
		c.Obs = append(c.Obs, o)
		c.giveUp(o, msg+": the rule did not run")
	}()
	f()
}

// shapeList splits the shapes of a name, leaving the ordinal out.
func shapeList(shapes string) []string {
	var out []string
	for _, sh := range strings.Split(shapes, ",") {
		if !strings.HasPrefix(sh, "#") && !strings.HasPrefix(sh, "=") {
			out = append(out, sh)
		}
	}
	return out
}

// matchKeys: what a renamed name keeps: its shape and, for a local, the form of its first declaration.
func matchKeys(shapes string) []string {
	sig := shapeSig(shapes)
	var out []string
	for _, sh := range shapeList(shapes) {
		out = append(out, sh+sig)
	}
	return out
}

func shapeOrd(shapes string) int {
	for _, sh := range strings.Split(shapes, ",") {
		if strings.HasPrefix(sh, "#") {
			n, _ := strconv.Atoi(sh[1:])
			return n
		}
	}
	return 0
}

// RestoreLocalNames gives renamed local variables (parameters, receivers,
// results, labels) the names they had on the reviewed tree, in the syntax
// trees of the loaded program.  Renaming a local consistently is an
// alpha-conversion: the function stays the same function, so every rule
// decides the same program; the rules that find a construct by the name of a
// local find it again.  A local is taken as renamed when its function no longer
// declares a reviewed name and declares a new name of the same shape (type
// with repository type names left out).  One candidate on each side: the name
// is restored.  Several of one shape: they are paired in the order of their
// declarations and recorded in GuessedNames (a failure of a rule that looks
// for such a name is then not a decision, see vocabGuard).  It returns the
// number of names restored.
func RestoreLocalNames(prog *Program, verifDir string) int {
	if os.Getenv("PDFVERIF_NORESTORE") != "" {
		return 0
	}
	v := loadVocab(verifDir)
	if v == nil {
		return 0
	}
	prog.GuessedNames = map[string][]string{}
	restoredObj = map[types.Object]string{}
	restored := restoreFuncNames(prog, v)
	for _, pkg := range prog.Pkgs {
		if len(pkg.Syntax) == 0 || !strings.HasPrefix(pkg.PkgPath, ModulePath) || pkg.TypesInfo == nil {
			continue
		}
		info := pkg.TypesInfo
		for _, file := range pkg.Syntax {
			if strings.HasSuffix(prog.Fset.Position(file.Pos()).Filename, "_test.go") {
				continue
			}
			for _, d := range file.Decls {
				fd, ok := d.(*ast.FuncDecl)
				if !ok || fd.Body == nil {
					continue
				}
				fobj, _ := info.Defs[fd.Name].(*types.Func)
				if fobj == nil {
					continue
				}
				owner := FuncKey(fobj) + "#locals"
				base, ok := v.Owners[owner]
				if !ok {
					continue
				}
				// current names: shapes, first ordinal and form of the first declaration, objects
				type cur struct {
					shapes map[string]bool
					ord    int
					sig    string
					rawSig string
					objs   []types.Object
					ids    []*ast.Ident
				}
				now := map[string]*cur{}
				for ord, ld := range localDefs(info, fd) {
					c := now[ld.id.Name]
					if c == nil {
						c = &cur{shapes: map[string]bool{}, ord: ord, sig: sigHash(ld.sig), rawSig: ld.sig}
						now[ld.id.Name] = c
					}
					c.shapes[ld.shape] = true
					if ld.obj != nil {
						c.objs = append(c.objs, ld.obj)
					}
					c.objs = append(c.objs, ld.more...)
					c.ids = append(c.ids, ld.id)
				}
				// group the deleted and the fresh names by (single) shape and form of declaration
				type cand struct {
					name string
					ord  int
				}
				deleted := map[string][]cand{}
				fresh := map[string][]cand{}
				for n, shapes := range base {
					if _, has := now[n]; has {
						continue
					}
					if ks := matchKeys(shapes); len(ks) == 1 {
						deleted[ks[0]] = append(deleted[ks[0]], cand{n, shapeOrd(shapes)})
					}
				}
				if len(deleted) == 0 {
					continue
				}
				for n, c := range now {
					if _, had := base[n]; had || len(c.shapes) != 1 {
						continue
					}
					for sh := range c.shapes {
						fresh[sh+c.sig] = append(fresh[sh+c.sig], cand{n, c.ord})
					}
				}
				rename := map[types.Object]string{}
				renameID := map[*ast.Ident]string{}
				for sh, ds := range deleted {
					fs := fresh[sh]
					if len(fs) == 0 || len(fs) != len(ds) {
						continue
					}
					sort.Slice(ds, func(i, j int) bool { return ds[i].ord < ds[j].ord })
					sort.Slice(fs, func(i, j int) bool { return fs[i].ord < fs[j].ord })
					for i := range ds {
						for _, o := range now[fs[i].name].objs {
							rename[o] = ds[i].name
							restoredObj[o] = ds[i].name
						}
						for _, id := range now[fs[i].name].ids {
							renameID[id] = ds[i].name
						}
						if os.Getenv("PDFVERIF_DEBUG_RESTORE") != "" {
							fmt.Fprintf(os.Stderr, "RESTORE %s: %s -> %s (%d candidates)\n", owner, fs[i].name, ds[i].name, len(ds))
						}
						if len(ds) > 1 || weakSig[now[fs[i].name].rawSig] {
							prog.GuessedNames[ds[i].name] = append(prog.GuessedNames[ds[i].name], owner)
						}
						restored++
					}
				}
				if len(rename) == 0 {
					continue
				}
				ast.Inspect(fd, func(n ast.Node) bool {
					id, ok := n.(*ast.Ident)
					if !ok {
						return true
					}
					o := info.Defs[id]
					if o == nil {
						o = info.Uses[id]
					}
					if o != nil {
						if old, ok := rename[o]; ok {
							id.Name = old
						}
					} else if old, ok := renameID[id]; ok {
						id.Name = old
					}
					return true
				})
			}
		}
	}
	prog.RestoredNames = restored
	return restored
}

// localDef is one declaration of a local name.
type localDef struct {
	id    *ast.Ident
	obj   types.Object
	sig   string         // how it is defined, all identifiers left out
	shape string         // objShape(obj), or "ts" for the variable of a type switch
	more  []types.Object // the per-clause objects of a type-switch variable
}

var predeclared = map[string]bool{"len": true, "cap": true, "append": true, "make": true, "new": true, "copy": true, "delete": true, "min": true, "max": true,
	"nil": true, "true": true, "false": true, "iota": true, "string": true, "byte": true, "rune": true, "int": true, "int8": true, "int16": true, "int32": true,
	"int64": true, "uint": true, "uint8": true, "uint16": true, "uint32": true, "uint64": true, "uintptr": true, "float32": true, "float64": true, "bool": true, "error": true, "any": true}

// anonExpr renders an expression with every identifier that is not
// predeclared replaced by "_": the form of a definition, whatever the things
// in it are called.
func anonExpr(e ast.Expr) string {
	if e == nil {
		return ""
	}
	c := &cloner{info: &types.Info{Types: map[ast.Expr]types.TypeAndValue{}, Uses: map[*ast.Ident]types.Object{}, Defs: map[*ast.Ident]types.Object{},
		Selections: map[*ast.SelectorExpr]*types.Selection{}, Implicits: map[ast.Node]types.Object{}, Scopes: map[ast.Node]*types.Scope{}, Instances: map[*ast.Ident]types.Instance{}}}
	c.rewrite = func(n ast.Node) ast.Node {
		switch x := n.(type) {
		case *ast.Ident:
			if predeclared[x.Name] {
				return nil
			}
			return &ast.Ident{NamePos: x.NamePos, Name: "_"}
		case *ast.FuncLit:
			return &ast.Ident{NamePos: x.Pos(), Name: "func"}
		}
		return nil
	}
	return types.ExprString(c.node(e).(ast.Expr))
}

// localDefs lists the declarations of local names in a function, in source order.
func localDefs(info *types.Info, fd *ast.FuncDecl) []localDef {
	var out []localDef
	var stack []ast.Node
	ast.Inspect(fd, func(n ast.Node) bool {
		if n == nil {
			stack = stack[:len(stack)-1]
			return true
		}
		stack = append(stack, n)
		id, ok := n.(*ast.Ident)
		if !ok || id == fd.Name || id.Name == "_" {
			return true
		}
		o := info.Defs[id]
		if o == nil {
			// switch x := y.(type): x has one object per clause
			if len(stack) >= 3 {
				if as, isAs := stack[len(stack)-2].(*ast.AssignStmt); isAs && len(as.Lhs) == 1 && as.Lhs[0] == ast.Expr(id) {
					if ts, isTS := stack[len(stack)-3].(*ast.TypeSwitchStmt); isTS && ts.Assign == ast.Stmt(as) {
						ld := localDef{id: id, sig: "typeswitch", shape: "ts"}
						for _, cl := range ts.Body.List {
							if io := info.Implicits[cl]; io != nil {
								ld.more = append(ld.more, io)
							}
						}
						out = append(out, ld)
					}
				}
			}
			return true
		}
		sig := "other"
		if len(stack) >= 2 {
			switch p := stack[len(stack)-2].(type) {
			case *ast.AssignStmt:
				idx := -1
				for i, l := range p.Lhs {
					if l == ast.Expr(id) {
						idx = i
					}
				}
				switch {
				case idx >= 0 && len(p.Rhs) == len(p.Lhs):
					sig = "def:" + anonExpr(p.Rhs[idx])
				case idx >= 0 && len(p.Rhs) == 1:
					sig = fmt.Sprintf("def%d:%s", idx, anonExpr(p.Rhs[0]))
				}
			case *ast.ValueSpec:
				idx := -1
				for i, l := range p.Names {
					if l == id {
						idx = i
					}
				}
				switch {
				case len(p.Values) == 0:
					sig = "var"
					if _, basic := o.Type().Underlying().(*types.Basic); !basic {
						sig = "var-composite"
					}
				case idx >= 0 && len(p.Values) == len(p.Names):
					sig = "def:" + anonExpr(p.Values[idx])
				case idx >= 0 && len(p.Values) == 1:
					sig = fmt.Sprintf("def%d:%s", idx, anonExpr(p.Values[0]))
				}
			case *ast.RangeStmt:
				if p.Key == ast.Expr(id) {
					sig = "rangekey:" + anonExpr(p.X)
				} else {
					sig = "rangeval:" + anonExpr(p.X)
				}
			case *ast.Field:
				// the place among the receiver, parameters and results
				sig = "param"
				k := 0
				for _, fl := range []*ast.FieldList{fd.Recv, fd.Type.Params, fd.Type.Results} {
					if fl == nil {
						continue
					}
					for _, f := range fl.List {
						for _, nm := range f.Names {
							if nm == id {
								sig = fmt.Sprintf("param#%d", k)
							}
							k++
						}
						if len(f.Names) == 0 {
							k++
						}
					}
					k += 100
				}
			case *ast.LabeledStmt:
				sig = "label"
			}
		}
		out = append(out, localDef{id: id, obj: o, sig: sig, shape: objShape(o)})
		return true
	})
	return out
}

func sigHash(sig string) string {
	h := sha256.Sum256([]byte(sig))
	return "=" + hex.EncodeToString(h[:4])
}

// shapeSig returns the definition signature recorded with the shapes of a local ("" if none).
func shapeSig(shapes string) string {
	for _, sh := range strings.Split(shapes, ",") {
		if strings.HasPrefix(sh, "=") {
			return sh
		}
	}
	return ""
}

// weakSig: forms of declaration that say nothing about the role of the
// variable (any two parameters of one type have the same): a name restored on
// such a match is a guess.
var weakSig = map[string]bool{"param": true, "var": true, "other": true, "label": true}

// restoredObj: the locals of the program loaded last that were given their
// reviewed names back (the type checker's objects keep the new names).
var restoredObj map[types.Object]string

// VarName is the name of an object as the syntax trees spell it: the
// reviewed name for a renamed local (RestoreLocalNames), its own otherwise.
func VarName(o types.Object) string {
	if o == nil {
		return ""
	}
	if n, ok := restoredObj[o]; ok {
		return n
	}
	if f, isF := o.(*types.Func); isF && f.Origin() != f {
		if n, ok := restoredObj[f.Origin()]; ok {
			return n
		}
	}
	return o.Name()
}

// structHash hashes the form of a piece of syntax: node kinds, operators and
// literals, with every identifier that is not predeclared left out.  A
// function that was only renamed (and whose locals, callees and types may
// have been renamed with it) keeps this hash; one whose body was changed does not.
func structHash(n ast.Node) string {
	if n == nil || reflect.ValueOf(n).IsNil() {
		return "=nobody"
	}
	h := sha256.New()
	ast.Inspect(n, func(m ast.Node) bool {
		if m == nil {
			h.Write([]byte{')'})
			return true
		}
		fmt.Fprintf(h, "(%T", m)
		switch x := m.(type) {
		case *ast.Ident:
			if predeclared[x.Name] {
				h.Write([]byte(x.Name))
			}
		case *ast.BasicLit:
			h.Write([]byte(x.Value))
		case *ast.BinaryExpr:
			h.Write([]byte(x.Op.String()))
		case *ast.UnaryExpr:
			h.Write([]byte(x.Op.String()))
		case *ast.AssignStmt:
			h.Write([]byte(x.Tok.String()))
		case *ast.IncDecStmt:
			h.Write([]byte(x.Tok.String()))
		case *ast.BranchStmt:
			h.Write([]byte(x.Tok.String()))
		case *ast.CommentGroup, *ast.Comment:
			return false
		}
		return true
	})
	return "=" + hex.EncodeToString(h.Sum(nil)[:4])
}

// typeShape renders a type with the names of repository types left out: a
// repository type is "§" followed (at the outermost level) by the shape of
// what it is made of, so that a map type and a struct type of the repository
// are told apart while either may be renamed; struct fields and interface
// methods go without their names.
func typeShape(t types.Type, depth int) string {
	switch x := t.(type) {
	case *types.Basic:
		return x.Name()
	case *types.Alias:
		return typeShape(types.Unalias(x), depth)
	case *types.Named:
		obj := x.Obj()
		if obj.Pkg() != nil && strings.HasPrefix(obj.Pkg().Path(), ModulePath) {
			if depth == 0 {
				return "§(" + typeShape(x.Underlying(), depth+1) + ")"
			}
			return "§"
		}
		s := obj.Name()
		if obj.Pkg() != nil {
			s = obj.Pkg().Path() + "." + s
		}
		if ta := x.TypeArgs(); ta != nil && ta.Len() > 0 {
			var as []string
			for i := 0; i < ta.Len(); i++ {
				as = append(as, typeShape(ta.At(i), depth+1))
			}
			s += "[" + strings.Join(as, ",") + "]"
		}
		return s
	case *types.Pointer:
		return "*" + typeShape(x.Elem(), depth)
	case *types.Slice:
		return "[]" + typeShape(x.Elem(), depth)
	case *types.Array:
		return fmt.Sprintf("[%d]%s", x.Len(), typeShape(x.Elem(), depth))
	case *types.Map:
		return "map[" + typeShape(x.Key(), depth+1) + "]" + typeShape(x.Elem(), depth+1)
	case *types.Chan:
		return "chan " + typeShape(x.Elem(), depth+1)
	case *types.Struct:
		var fs []string
		for i := 0; i < x.NumFields(); i++ {
			fs = append(fs, typeShape(x.Field(i).Type(), depth+1))
		}
		return "struct{" + strings.Join(fs, ";") + "}"
	case *types.Tuple:
		var fs []string
		for i := 0; i < x.Len(); i++ {
			fs = append(fs, typeShape(x.At(i).Type(), depth+1))
		}
		return "(" + strings.Join(fs, ",") + ")"
	case *types.Signature:
		v := ""
		if x.Variadic() {
			v = "..."
		}
		return "func" + v + typeShape(x.Params(), depth+1) + typeShape(x.Results(), depth+1)
	case *types.Interface:
		return fmt.Sprintf("interface{%d}", x.NumMethods())
	case *types.TypeParam:
		return "T"
	}
	return "?"
}

// restoreFuncNames gives renamed functions and methods their reviewed names
// back: in FuncKey (through VarName) and in every identifier that refers to
// them.  A function is taken as renamed when its package (or receiver type) no
// longer declares a reviewed name and declares a new one with the same
// signature shape and the same form of body (structHash); several such
// candidates are paired in source order and recorded as guesses.
func restoreFuncNames(prog *Program, v *Vocab) int {
	type fdecl struct {
		name string
		obj  *types.Func
		key  string // shape + body form
		pos  token.Pos
	}
	byOwner := map[string][]fdecl{}
	for _, pkg := range prog.Pkgs {
		if len(pkg.Syntax) == 0 || !strings.HasPrefix(pkg.PkgPath, ModulePath) || pkg.TypesInfo == nil {
			continue
		}
		sp := ShortPkg(pkg.PkgPath)
		for _, file := range pkg.Syntax {
			if strings.HasSuffix(prog.Fset.Position(file.Pos()).Filename, "_test.go") {
				continue
			}
			for _, d := range file.Decls {
				fd, ok := d.(*ast.FuncDecl)
				if !ok {
					continue
				}
				obj, _ := pkg.TypesInfo.Defs[fd.Name].(*types.Func)
				if obj == nil {
					continue
				}
				owner := sp + "#funcs"
				if fd.Recv != nil {
					tn := recvTypeName(fd)
					if tn == "" {
						continue
					}
					owner = sp + "." + tn + "#methods"
				}
				byOwner[owner] = append(byOwner[owner], fdecl{fd.Name.Name, obj, objShape(obj) + structHash(fd.Body), fd.Pos()})
			}
		}
	}
	rename := map[types.Object]string{}
	n := 0
	for owner, decls := range byOwner {
		base, ok := v.Owners[owner]
		if !ok {
			continue
		}
		nowNames := map[string]bool{}
		for _, d := range decls {
			nowNames[d.name] = true
		}
		deleted := map[string][]string{} // key -> reviewed names
		for name, shapes := range base {
			if nowNames[name] {
				continue
			}
			if ks := matchKeys(shapes); len(ks) == 1 {
				deleted[ks[0]] = append(deleted[ks[0]], name)
			}
		}
		if len(deleted) == 0 {
			continue
		}
		fresh := map[string][]fdecl{}
		for _, d := range decls {
			if _, had := base[d.name]; !had {
				fresh[d.key] = append(fresh[d.key], d)
			}
		}
		for key, olds := range deleted {
			fs := fresh[key]
			if len(fs) == 0 || len(fs) != len(olds) {
				continue
			}
			sort.Strings(olds)
			sort.Slice(fs, func(i, j int) bool { return fs[i].name < fs[j].name })
			for i := range olds {
				rename[fs[i].obj] = olds[i]
				restoredObj[fs[i].obj] = olds[i]
				if len(olds) > 1 {
					prog.GuessedNames[olds[i]] = append(prog.GuessedNames[olds[i]], owner)
				}
				if os.Getenv("PDFVERIF_DEBUG_RESTORE") != "" {
					fmt.Fprintf(os.Stderr, "RESTORE %s: %s -> %s (%d candidates)\n", owner, fs[i].name, olds[i], len(olds))
				}
				n++
			}
		}
	}
	if len(rename) == 0 {
		return 0
	}
	for _, pkg := range prog.Pkgs {
		if pkg.TypesInfo == nil || !strings.HasPrefix(pkg.PkgPath, ModulePath) {
			continue
		}
		for id, o := range pkg.TypesInfo.Uses {
			if f, isF := o.(*types.Func); isF {
				o = f.Origin()
			}
			if old, ok := rename[o]; ok {
				id.Name = old
			}
		}
		for id, o := range pkg.TypesInfo.Defs {
			if old, ok := rename[o]; ok {
				id.Name = old
			}
		}
	}
	return n
}
