package core

import (
	"fmt"
	"go/ast"
	"go/constant"
	"go/token"
	"go/types"
	"sort"
	"strings"
)

// ByteSet is a subset of {0..255}.
type ByteSet [256]bool

// BytesOf builds a set from a string of bytes.
func BytesOf(s string) ByteSet {
	var b ByteSet
	for i := 0; i < len(s); i++ {
		b[s[i]] = true
	}
	return b
}

// ByteRange builds the set {lo..hi}.
func ByteRange(lo, hi int) ByteSet {
	var b ByteSet
	for i := lo; i <= hi; i++ {
		b[i] = true
	}
	return b
}

func (b ByteSet) Union(o ByteSet) ByteSet {
	for i := range b {
		b[i] = b[i] || o[i]
	}
	return b
}
func (b ByteSet) Minus(o ByteSet) ByteSet {
	for i := range b {
		b[i] = b[i] && !o[i]
	}
	return b
}
func (b ByteSet) Not() ByteSet {
	for i := range b {
		b[i] = !b[i]
	}
	return b
}
func (b ByteSet) SubsetOf(o ByteSet) bool {
	for i := range b {
		if b[i] && !o[i] {
			return false
		}
	}
	return true
}
func (b ByteSet) Equal(o ByteSet) bool { return b == o }
func (b ByteSet) Len() int {
	n := 0
	for _, x := range b {
		if x {
			n++
		}
	}
	return n
}

// String renders the set as ranges.
func (b ByteSet) String() string {
	var parts []string
	for i := 0; i < 256; {
		if !b[i] {
			i++
			continue
		}
		j := i
		for j+1 < 256 && b[j+1] {
			j++
		}
		if i == j {
			parts = append(parts, fmt.Sprintf("%#02x", i))
		} else {
			parts = append(parts, fmt.Sprintf("%#02x-%#02x", i, j))
		}
		i = j + 1
	}
	return "{" + strings.Join(parts, ",") + "}"
}

// ArrayTable evaluates a package-level array/slice variable initialised by
// a composite literal of constants into a Go slice of integers.  Missing
// entries are zero.
func (p *Program) ArrayTable(shortPkg, name string) []int64 {
	_, init, pkg := p.Var(shortPkg, name)
	lit, ok := ast.Unparen(init).(*ast.CompositeLit)
	if !ok {
		panic(AnchorError{fmt.Sprintf("%s.%s is not initialised by a composite literal", shortPkg, name)})
	}
	return IntTableOfLit(pkg.TypesInfo, lit, shortPkg+"."+name)
}

// IntTableOfLit evaluates a composite literal of integer constants.
func IntTableOfLit(info *types.Info, lit *ast.CompositeLit, what string) []int64 {
	n := int64(-1)
	if at, ok := info.TypeOf(lit).Underlying().(*types.Array); ok {
		n = at.Len()
	}
	vals := map[int64]int64{}
	idx := int64(0)
	max := int64(-1)
	for _, el := range lit.Elts {
		val := el
		if kv, ok := el.(*ast.KeyValueExpr); ok {
			k, ok := IntConst(info, kv.Key)
			if !ok {
				Undecided("%s: non-constant key in table literal", what)
			}
			idx = k
			val = kv.Value
		}
		v, ok := IntConst(info, val)
		if !ok {
			Undecided("%s: non-constant element in table literal", what)
		}
		vals[idx] = v
		if idx > max {
			max = idx
		}
		idx++
	}
	if n < 0 {
		n = max + 1
	}
	out := make([]int64, n)
	for k, v := range vals {
		if k >= 0 && k < n {
			out[k] = v
		}
	}
	return out
}

// ByteEnv evaluates boolean expressions over one byte-valued variable.
type ByteEnv struct {
	Info   *types.Info
	Var    types.Object          // the byte variable
	Alias  func(e ast.Expr) bool // optional: other expressions denoting the same byte (e.g. buf[0])
	Tables map[types.Object][]int64
}

func (env *ByteEnv) isVar(e ast.Expr) bool {
	e = ast.Unparen(e)
	if id, ok := e.(*ast.Ident); ok && env.Var != nil && env.Info.ObjectOf(id) == env.Var {
		return true
	}
	if env.Alias != nil && env.Alias(e) {
		return true
	}
	// conversions of the variable to another integer type keep the value
	if call, ok := e.(*ast.CallExpr); ok && len(call.Args) == 1 {
		if tv, ok := env.Info.Types[call.Fun]; ok && tv.IsType() {
			if b, ok := tv.Type.Underlying().(*types.Basic); ok && b.Info()&types.IsInteger != 0 {
				return env.isVar(call.Args[0])
			}
		}
	}
	return false
}

// evalInt evaluates an integer expression for Var = v.
func (env *ByteEnv) evalInt(e ast.Expr, v int) (int64, bool) {
	e = ast.Unparen(e)
	if c, ok := IntConst(env.Info, e); ok {
		return c, true
	}
	if env.isVar(e) {
		return int64(v), true
	}
	switch x := e.(type) {
	case *ast.IndexExpr:
		obj := ObjOf(env.Info, x.X)
		if tbl, ok := env.Tables[obj]; ok && obj != nil {
			i, ok := env.evalInt(x.Index, v)
			if ok && i >= 0 && int(i) < len(tbl) {
				return tbl[i], true
			}
		}
	case *ast.BinaryExpr:
		l, ok1 := env.evalInt(x.X, v)
		r, ok2 := env.evalInt(x.Y, v)
		if ok1 && ok2 {
			switch x.Op {
			case token.ADD:
				return l + r, true
			case token.SUB:
				return l - r, true
			case token.AND:
				return l & r, true
			case token.OR:
				return l | r, true
			case token.SHR:
				return l >> uint(r), true
			case token.SHL:
				return l << uint(r), true
			}
		}
	case *ast.CallExpr:
		if len(x.Args) == 1 {
			if tv, ok := env.Info.Types[x.Fun]; ok && tv.IsType() {
				return env.evalInt(x.Args[0], v)
			}
		}
	}
	return 0, false
}

// EvalBool evaluates a boolean expression for Var = v; known=false when the
// expression depends on anything else.
func (env *ByteEnv) EvalBool(e ast.Expr, v int) (val, known bool) {
	e = ast.Unparen(e)
	if c := ConstOf(env.Info, e); c != nil && c.Kind() == constant.Bool {
		return constant.BoolVal(c), true
	}
	switch x := e.(type) {
	case *ast.UnaryExpr:
		if x.Op == token.NOT {
			b, k := env.EvalBool(x.X, v)
			return !b, k
		}
	case *ast.BinaryExpr:
		switch x.Op {
		case token.LAND:
			a, ka := env.EvalBool(x.X, v)
			b, kb := env.EvalBool(x.Y, v)
			if ka && !a || kb && !b {
				return false, true
			}
			return a && b, ka && kb
		case token.LOR:
			a, ka := env.EvalBool(x.X, v)
			b, kb := env.EvalBool(x.Y, v)
			if ka && a || kb && b {
				return true, true
			}
			return a || b, ka && kb
		case token.EQL, token.NEQ, token.LSS, token.LEQ, token.GTR, token.GEQ:
			l, ok1 := env.evalInt(x.X, v)
			r, ok2 := env.evalInt(x.Y, v)
			if !ok1 || !ok2 {
				return false, false
			}
			return constant.Compare(constant.MakeInt64(l), x.Op, constant.MakeInt64(r)), true
		}
	}
	return false, false
}

// evalCond decides a branching vertex for Var = v: returns the label of the
// edge taken, or EdgeNone when undetermined.
func (env *ByteEnv) evalCond(c *Cond, v int) EdgeLabel {
	if c == nil || c.Expr == nil {
		return EdgeNone
	}
	if c.Tag != nil {
		l, ok1 := env.evalInt(c.Tag, v)
		r, ok2 := env.evalInt(c.Expr, v)
		if !ok1 || !ok2 {
			return EdgeNone
		}
		if l == r {
			return EdgeTrue
		}
		return EdgeFalse
	}
	b, known := env.EvalBool(c.Expr, v)
	if !known {
		return EdgeNone
	}
	if b {
		return EdgeTrue
	}
	return EdgeFalse
}

// ReachSet computes, for every byte value v, whether `site` can be reached
// from one of `starts` (inclusive) when every branch whose condition is decided by
// Var = v is taken accordingly (other branches are explored both ways).
// stop vertices end a path (e.g. reassignments of the variable).
func (env *ByteEnv) ReachSet(g *Graph, starts []*V, site func(*V) bool, stop func(*V) bool) ByteSet {
	var out ByteSet
	for v := 0; v < 256; v++ {
		seen := map[*V]bool{}
		var stack []*V
		push := func(x *V) {
			if !seen[x] {
				seen[x] = true
				stack = append(stack, x)
			}
		}
		for _, st := range starts {
			if st != nil {
				push(st)
			}
		}
		found := false
		for len(stack) > 0 && !found {
			x := stack[len(stack)-1]
			stack = stack[:len(stack)-1]
			if site(x) {
				found = true
				break
			}
			if stop != nil && stop(x) {
				continue
			}
			take := EdgeNone
			if x.Cond != nil {
				take = env.evalCond(x.Cond, v)
			}
			for _, e := range x.Succs {
				if take != EdgeNone && e.Label != EdgeNone && e.Label != take {
					continue
				}
				push(e.To)
			}
		}
		out[v] = found
	}
	return out
}

// SortedKeys returns the sorted keys of a string-keyed map.
func SortedKeys[T any](m map[string]T) []string {
	out := make([]string, 0, len(m))
	for k := range m {
		out = append(out, k)
	}
	sort.Strings(out)
	return out
}
