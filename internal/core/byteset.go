package core

import (
	"fmt"
	"go/ast"
	"go/constant"
	"go/token"
	"go/types"
	"os"
	"sort"
	"strings"
)

// ByteSet is a subset of {0..255}.
type ByteSet [256]bool

// BytesOf builds a set from a string of bytes.
func BytesOf(s string) ByteSet {
	var b ByteSet
	for i := 0; i < len(s); i++ {
		b[s[i]] = true
	}
	return b
}

// ByteRange builds the set {lo..hi}.
func ByteRange(lo, hi int) ByteSet {
	var b ByteSet
	for i := lo; i <= hi; i++ {
		b[i] = true
	}
	return b
}

func (b ByteSet) Union(o ByteSet) ByteSet {
	for i := range b {
		b[i] = b[i] || o[i]
	}
	return b
}
func (b ByteSet) Minus(o ByteSet) ByteSet {
	for i := range b {
		b[i] = b[i] && !o[i]
	}
	return b
}
func (b ByteSet) Not() ByteSet {
	for i := range b {
		b[i] = !b[i]
	}
	return b
}
func (b ByteSet) SubsetOf(o ByteSet) bool {
	for i := range b {
		if b[i] && !o[i] {
			return false
		}
	}
	return true
}
func (b ByteSet) Equal(o ByteSet) bool { return b == o }
func (b ByteSet) Len() int {
	n := 0
	for _, x := range b {
		if x {
			n++
		}
	}
	return n
}

// String renders the set as ranges.
func (b ByteSet) String() string {
	var parts []string
	for i := 0; i < 256; {
		if !b[i] {
			i++
			continue
		}
		j := i
		for j+1 < 256 && b[j+1] {
			j++
		}
		if i == j {
			parts = append(parts, fmt.Sprintf("%#02x", i))
		} else {
			parts = append(parts, fmt.Sprintf("%#02x-%#02x", i, j))
		}
		i = j + 1
	}
	return "{" + strings.Join(parts, ",") + "}"
}

// ArrayTable evaluates a package-level array/slice variable initialised by
// a composite literal of constants into a Go slice of integers.  Missing
// entries are zero.
func (p *Program) ArrayTable(shortPkg, name string) []int64 {
	_, init, pkg := p.Var(shortPkg, name)
	lit, ok := ast.Unparen(init).(*ast.CompositeLit)
	if !ok {
		panic(AnchorError{fmt.Sprintf("%s.%s is not initialised by a composite literal", shortPkg, name)})
	}
	return IntTableOfLit(pkg.TypesInfo, lit, shortPkg+"."+name)
}

// IntTableOfLit evaluates a composite literal of integer constants.
func IntTableOfLit(info *types.Info, lit *ast.CompositeLit, what string) []int64 {
	n := int64(-1)
	if at, ok := info.TypeOf(lit).Underlying().(*types.Array); ok {
		n = at.Len()
	}
	vals := map[int64]int64{}
	idx := int64(0)
	max := int64(-1)
	for _, el := range lit.Elts {
		val := el
		if kv, ok := el.(*ast.KeyValueExpr); ok {
			k, ok := IntConst(info, kv.Key)
			if !ok {
				Undecided("%s: non-constant key in table literal", what)
			}
			idx = k
			val = kv.Value
		}
		v, ok := IntConst(info, val)
		if !ok {
			Undecided("%s: non-constant element in table literal", what)
		}
		vals[idx] = v
		if idx > max {
			max = idx
		}
		idx++
	}
	if n < 0 {
		n = max + 1
	}
	out := make([]int64, n)
	for k, v := range vals {
		if k >= 0 && k < n {
			out[k] = v
		}
	}
	return out
}

// ByteEnv evaluates boolean expressions over one byte-valued variable.
type ByteEnv struct {
	Info   *types.Info
	Var    types.Object          // the byte variable
	Alias  func(e ast.Expr) bool // optional: other expressions denoting the same byte (e.g. buf[0])
	Tables map[types.Object][]int64
	// Prog, when set, lets the evaluation look into calls of repository
	// functions whose result is determined by the byte (hexDigit(b)).
	Prog *Program
	// Body: the body explored (set by the explorations), for questions about definitions
	Body ast.Node

	cur   map[types.Object]int64 // values of tracked locals on the current path (booleans as 0/1)
	unt   map[types.Object]bool
	only  map[types.Object]bool // when set, only these variables are tracked
	depth int
}

// symFlag marks a tracked value as "the input byte itself" (a copy of the
// variable), as opposed to a constant that happens to have the same value.
const symFlag int64 = 1 << 40

// dependsOnVar: e mentions the byte variable, or a local whose definitions
// (in the statement list the vertex belongs to is not known here: anywhere in
// the function) mention it.
func (env *ByteEnv) dependsOnVar(e ast.Expr, at *V, depth int) bool {
	found := false
	var locals []types.Object
	ast.Inspect(e, func(n ast.Node) bool {
		if id, ok := n.(*ast.Ident); ok {
			if o := env.Info.ObjectOf(id); o != nil {
				if o == env.Var {
					found = true
				} else if v, isVar := o.(*types.Var); isVar && !v.IsField() {
					locals = append(locals, o)
				}
			}
		}
		return !found
	})
	if found || depth == 0 || env.Body == nil {
		return found
	}
	for _, l := range locals {
		for _, d := range AssignsTo(env.Info, env.Body, l) {
			switch x := d.(type) {
			case *ast.AssignStmt:
				for i, lhs := range x.Lhs {
					if ObjOf(env.Info, lhs) == l {
						if len(x.Rhs) == len(x.Lhs) && env.dependsOnVar(x.Rhs[i], at, depth-1) {
							return true
						}
						if len(x.Rhs) == 1 && len(x.Lhs) > 1 && env.dependsOnVar(x.Rhs[0], at, depth-1) {
							return true
						}
					}
				}
			case *ast.ValueSpec:
				for _, v := range x.Values {
					if env.dependsOnVar(v, at, depth-1) {
						return true
					}
				}
			}
		}
	}
	return false
}

func (env *ByteEnv) isVar(e ast.Expr) bool {
	e = ast.Unparen(e)
	if id, ok := e.(*ast.Ident); ok && env.Var != nil && env.Info.ObjectOf(id) == env.Var {
		if n, over := env.cur[env.Var]; over {
			return n&symFlag != 0 // overwritten on this path
		}
		return true
	}
	if id, ok := e.(*ast.Ident); ok && env.cur != nil {
		if n, ok := env.cur[env.Info.ObjectOf(id)]; ok && n&symFlag != 0 {
			return true
		}
	}
	if env.Alias != nil && env.Alias(e) {
		return true
	}
	// conversions of the variable to another integer type keep the value
	if call, ok := e.(*ast.CallExpr); ok && len(call.Args) == 1 {
		if tv, ok := env.Info.Types[call.Fun]; ok && tv.IsType() {
			if b, ok := tv.Type.Underlying().(*types.Basic); ok && b.Info()&types.IsInteger != 0 {
				return env.isVar(call.Args[0])
			}
		}
	}
	return false
}

// evalInt evaluates an integer expression for Var = v.
func (env *ByteEnv) evalInt(e ast.Expr, v int) (int64, bool) {
	e = ast.Unparen(e)
	if c, ok := IntConst(env.Info, e); ok {
		return c, true
	}
	// pointers: nil is 0, a fresh allocation is 1
	if IsNil(env.Info, e) {
		return 0, true
	}
	if isFreshAlloc(env.Info, e) {
		return 1, true
	}
	if id, ok := e.(*ast.Ident); ok && env.cur != nil {
		if n, ok := env.cur[env.Info.ObjectOf(id)]; ok {
			return n &^ symFlag, true
		}
	}
	if env.isVar(e) {
		if call, ok := e.(*ast.CallExpr); ok && len(call.Args) == 1 {
			return env.evalInt(call.Args[0], v) // conversion of a copy of the byte
		}
		return int64(v), true
	}
	switch x := e.(type) {
	case *ast.IndexExpr:
		obj := ObjOf(env.Info, x.X)
		if _, have := env.Tables[obj]; !have && obj != nil && env.Prog != nil {
			// a package-level lookup table (literal, or filled by a constant initialiser function)
			if t := env.Prog.ConstTableOf(obj); t != nil {
				if env.Tables == nil {
					env.Tables = map[types.Object][]int64{}
				}
				env.Tables[obj] = t
			}
		}
		if tbl, ok := env.Tables[obj]; ok && obj != nil {
			i, ok := env.evalInt(x.Index, v)
			if ok && i >= 0 && int(i) < len(tbl) {
				return tbl[i], true
			}
		}
	case *ast.SelectorExpr:
		// table[i].field for a package-level table of structs
		if ix, ok := ast.Unparen(x.X).(*ast.IndexExpr); ok && env.Prog != nil {
			if obj := ObjOf(env.Info, ix.X); obj != nil {
				if tbl := env.Prog.ConstFieldTableOf(obj, x.Sel.Name); tbl != nil {
					i, ok := env.evalInt(ix.Index, v)
					if ok && i >= 0 && int(i) < len(tbl) {
						return tbl[i], true
					}
				}
			}
		}
	case *ast.BinaryExpr:
		l, ok1 := env.evalInt(x.X, v)
		r, ok2 := env.evalInt(x.Y, v)
		if ok1 && ok2 {
			switch x.Op {
			case token.ADD:
				return l + r, true
			case token.SUB:
				return l - r, true
			case token.AND:
				return l & r, true
			case token.OR:
				return l | r, true
			case token.SHR:
				return l >> uint(r), true
			case token.SHL:
				return l << uint(r), true
			case token.MUL:
				return l * r, true
			case token.XOR:
				return l ^ r, true
			}
		}
	case *ast.CallExpr:
		if len(x.Args) == 1 {
			if tv, ok := env.Info.Types[x.Fun]; ok && tv.IsType() {
				return env.evalInt(x.Args[0], v)
			}
		}
		if res, ok := env.evalCall(x, v); ok && len(res) >= 1 && res[0].known {
			return res[0].n, true
		}
	}
	return 0, false
}

// EvalBool evaluates a boolean expression for Var = v; known=false when the
// expression depends on anything else.
func (env *ByteEnv) EvalBool(e ast.Expr, v int) (val, known bool) {
	e = ast.Unparen(e)
	if c := ConstOf(env.Info, e); c != nil && c.Kind() == constant.Bool {
		return constant.BoolVal(c), true
	}
	switch x := e.(type) {
	case *ast.Ident:
		if env.cur != nil {
			if n, ok := env.cur[env.Info.ObjectOf(x)]; ok {
				return n&^symFlag != 0, true
			}
		}
	case *ast.CallExpr:
		if res, ok := env.evalCall(x, v); ok && len(res) >= 1 && res[0].known {
			return res[0].n != 0, true
		}
	case *ast.IndexExpr, *ast.SelectorExpr:
		// a table of booleans indexed by the byte (isPlain[b]), or a boolean field of a table entry
		if n, ok := env.evalInt(x, v); ok {
			return n != 0, true
		}
	case *ast.UnaryExpr:
		if x.Op == token.NOT {
			b, k := env.EvalBool(x.X, v)
			return !b, k
		}
	case *ast.BinaryExpr:
		switch x.Op {
		case token.LAND:
			a, ka := env.EvalBool(x.X, v)
			b, kb := env.EvalBool(x.Y, v)
			if ka && !a || kb && !b {
				return false, true
			}
			return a && b, ka && kb
		case token.LOR:
			a, ka := env.EvalBool(x.X, v)
			b, kb := env.EvalBool(x.Y, v)
			if ka && a || kb && b {
				return true, true
			}
			return a || b, ka && kb
		case token.EQL, token.NEQ, token.LSS, token.LEQ, token.GTR, token.GEQ:
			l, ok1 := env.evalInt(x.X, v)
			r, ok2 := env.evalInt(x.Y, v)
			if !ok1 || !ok2 {
				return false, false
			}
			return constant.Compare(constant.MakeInt64(l), x.Op, constant.MakeInt64(r)), true
		}
	}
	return false, false
}

// evalCond decides a branching vertex for Var = v: returns the label of the
// edge taken, or EdgeNone when undetermined.
func (env *ByteEnv) evalCond(c *Cond, v int) EdgeLabel {
	if c == nil || c.Expr == nil {
		return EdgeNone
	}
	if c.Tag != nil {
		l, ok1 := env.evalInt(c.Tag, v)
		r, ok2 := env.evalInt(c.Expr, v)
		if !ok1 || !ok2 {
			return EdgeNone
		}
		if l == r {
			return EdgeTrue
		}
		return EdgeFalse
	}
	b, known := env.EvalBool(c.Expr, v)
	if !known {
		return EdgeNone
	}
	if b {
		return EdgeTrue
	}
	return EdgeFalse
}

// bres is one result of an evaluated call.
type bres struct {
	n     int64
	known bool
}

// evalAny evaluates an integer or boolean expression (booleans as 0/1).
func (env *ByteEnv) evalAny(e ast.Expr, v int) (int64, bool) {
	if t := env.Info.TypeOf(e); t != nil {
		if b, ok := t.Underlying().(*types.Basic); ok && b.Info()&types.IsBoolean != 0 {
			val, known := env.EvalBool(e, v)
			if val {
				return 1, known
			}
			return 0, known
		}
	}
	n, ok := env.evalInt(e, v)
	if ok && env.isVar(e) {
		n |= symFlag
	}
	return n, ok
}

// evalCall evaluates a call of a repository function whose control flow and
// results are determined by its arguments: the callee's graph is walked with
// the parameters bound; any branch that cannot be decided makes the result
// unknown.
func (env *ByteEnv) evalCall(call *ast.CallExpr, v int) ([]bres, bool) {
	if env.Prog == nil || env.depth >= 3 {
		return nil, false
	}
	cf := Callee(env.Info, call)
	if cf == nil {
		return nil, false
	}
	fn := env.Prog.FuncOf(cf)
	if fn == nil || fn.Decl.Body == nil || fn.Decl.Type.Params == nil {
		return nil, false
	}
	bound := map[types.Object]int64{}
	i := 0
	for _, f := range fn.Decl.Type.Params.List {
		for _, name := range f.Names {
			if i < len(call.Args) {
				if n, ok := env.evalAny(call.Args[i], v); ok {
					bound[fn.Info().ObjectOf(name)] = n
				}
			}
			i++
		}
	}
	if i != len(call.Args) {
		return nil, false
	}
	sub := &ByteEnv{Info: fn.Info(), Tables: map[types.Object][]int64{}, Prog: env.Prog, depth: env.depth + 1}
	for k, t := range env.Tables {
		sub.Tables[k] = t
	}
	g := fn.Graph()
	unt := untracked(fn.Info(), fn.Decl.Body, nil)
	x := g.Entry
	store := bound
	for steps := 0; steps < 400 && x != nil; steps++ {
		sub.cur = store
		if ret, ok := x.AST.(*ast.ReturnStmt); ok {
			var out []bres
			for _, r := range ret.Results {
				n, known := sub.evalAny(r, 0)
				out = append(out, bres{n &^ symFlag, known})
			}
			if len(ret.Results) == 0 {
				return nil, false
			}
			return out, true
		}
		store = sub.step(x, store, 0, unt)
		sub.cur = store
		var next *V
		if x.Cond != nil && x.Cond.Expr != nil {
			take := sub.evalCond(x.Cond, 0)
			if take == EdgeNone {
				return nil, false
			}
			for _, e := range x.Succs {
				if e.Label == take {
					next = e.To
				}
			}
		} else if len(x.Succs) == 1 {
			next = x.Succs[0].To
		} else if len(x.Succs) > 1 {
			return nil, false
		}
		x = next
	}
	return nil, false
}

// untracked returns the variables whose values the exploration must not
// track: those assigned inside function literals (other than skip) and those
// whose address is taken.
func untracked(info *types.Info, body ast.Node, skip *ast.FuncLit) map[types.Object]bool {
	out := map[types.Object]bool{}
	var inLit func(n ast.Node)
	inLit = func(n ast.Node) {
		ast.Inspect(n, func(m ast.Node) bool {
			switch x := m.(type) {
			case *ast.AssignStmt:
				for _, l := range x.Lhs {
					if id, ok := ast.Unparen(l).(*ast.Ident); ok {
						out[info.ObjectOf(id)] = true
					}
				}
			case *ast.IncDecStmt:
				if id, ok := ast.Unparen(x.X).(*ast.Ident); ok {
					out[info.ObjectOf(id)] = true
				}
			case *ast.RangeStmt:
				for _, l := range []ast.Expr{x.Key, x.Value} {
					if id, ok := l.(*ast.Ident); ok && x.Tok == token.ASSIGN {
						out[info.ObjectOf(id)] = true
					}
				}
			}
			return true
		})
	}
	ast.Inspect(body, func(n ast.Node) bool {
		switch x := n.(type) {
		case *ast.FuncLit:
			if x != skip {
				inLit(x.Body)
			}
		case *ast.UnaryExpr:
			if x.Op == token.AND {
				if id, ok := ast.Unparen(x.X).(*ast.Ident); ok {
					out[info.ObjectOf(id)] = true
				}
			}
		}
		return true
	})
	return out
}

// step is the transfer function of the exploration: it returns the store
// after executing vertex x (copy on write).
func (env *ByteEnv) step(x *V, store map[types.Object]int64, v int, unt map[types.Object]bool) map[types.Object]int64 {
	if x.AST == nil {
		return store
	}
	var out map[types.Object]int64
	set := func(obj types.Object, n int64, known bool) {
		if obj == env.Var && obj != nil {
			// the byte variable itself is given a known value by a plain assignment
			// (esc = table[esc]): from here on it is that value, not the input byte.
			// (A new definition or an unknown value leaves the exploration as it was:
			// every visit of the loop is made for the same byte.)
			as, isAs := x.AST.(*ast.AssignStmt)
			if !isAs || as.Tok != token.ASSIGN || !known {
				return
			}
			// (a constant assigned to it -- "if w0 == 0 { tp = 1 }" -- starts another
			// case, which the rules explore on its own: left as it was)
			// Only a value computed from the variable itself is such a rewrite; anything else
			// (the variable's own definition through a folded-in helper, a constant that starts
			// another case) leaves the exploration as it was.
			rewrite := false
			for i, l := range as.Lhs {
				if id, isID := ast.Unparen(l).(*ast.Ident); isID && env.Info.ObjectOf(id) == obj && i < len(as.Rhs) {
					if tv, has := env.Info.Types[as.Rhs[i]]; has && tv.Value != nil {
						return
					}
					rewrite = env.dependsOnVar(as.Rhs[i], x, 2)
				}
			}
			if !rewrite {
				return
			}
			if old, had := store[obj]; had && old == n {
				return
			}
			if out == nil {
				out = make(map[types.Object]int64, len(store)+1)
				for k, val := range store {
					out[k] = val
				}
			}
			if os.Getenv("PDFVERIF_DEBUG_OVR") != "" {
				fmt.Fprintf(os.Stderr, "OVERRIDE %s = %d at %s\n", obj.Name(), n, ExprStr(as.Rhs[0]))
			}
			out[obj] = n
			return
		}
		if obj == nil || unt[obj] {
			return
		}
		if env.only != nil && !env.only[obj] {
			return
		}
		if _, isVar := obj.(*types.Var); !isVar {
			return
		}
		if old, had := store[obj]; had == known && (!known || old == n) && out == nil {
			return
		}
		if out == nil {
			out = make(map[types.Object]int64, len(store)+1)
			for k, val := range store {
				out[k] = val
			}
		}
		if known {
			out[obj] = n
		} else {
			delete(out, obj)
		}
	}
	basicZero := func(obj types.Object) bool {
		if _, isPtr := obj.Type().Underlying().(*types.Pointer); isPtr {
			return true // nil
		}
		b, ok := obj.Type().Underlying().(*types.Basic)
		return ok && b.Info()&(types.IsInteger|types.IsBoolean) != 0
	}
	switch n := x.AST.(type) {
	case *ast.AssignStmt:
		if len(n.Lhs) == len(n.Rhs) {
			type upd struct {
				obj   types.Object
				n     int64
				known bool
			}
			var ups []upd
			for i, l := range n.Lhs {
				id, ok := ast.Unparen(l).(*ast.Ident)
				if !ok || id.Name == "_" {
					continue
				}
				obj := env.Info.ObjectOf(id)
				switch n.Tok {
				case token.ASSIGN, token.DEFINE:
					val, known := env.evalAny(n.Rhs[i], v)
					ups = append(ups, upd{obj, val, known})
				default:
					old, ok1 := env.evalInt(id, v)
					r, ok2 := env.evalInt(n.Rhs[i], v)
					known := ok1 && ok2
					var val int64
					switch n.Tok {
					case token.ADD_ASSIGN:
						val = old + r
					case token.SUB_ASSIGN:
						val = old - r
					case token.OR_ASSIGN:
						val = old | r
					case token.AND_ASSIGN:
						val = old & r
					case token.SHL_ASSIGN:
						val = old << uint(r&63)
					case token.SHR_ASSIGN:
						val = old >> uint(r&63)
					default:
						known = false
					}
					ups = append(ups, upd{obj, val, known})
				}
			}
			for _, u := range ups {
				set(u.obj, u.n, u.known)
			}
		} else if len(n.Rhs) == 1 {
			var res []bres
			if call, ok := ast.Unparen(n.Rhs[0]).(*ast.CallExpr); ok {
				res, _ = env.evalCall(call, v)
			}
			for i, l := range n.Lhs {
				id, ok := ast.Unparen(l).(*ast.Ident)
				if !ok || id.Name == "_" {
					continue
				}
				if i < len(res) {
					set(env.Info.ObjectOf(id), res[i].n, res[i].known)
				} else {
					set(env.Info.ObjectOf(id), 0, false)
				}
			}
		}
	case *ast.DeclStmt:
		if gd, ok := n.Decl.(*ast.GenDecl); ok && gd.Tok == token.VAR {
			for _, sp := range gd.Specs {
				vs, ok := sp.(*ast.ValueSpec)
				if !ok {
					continue
				}
				for i, name := range vs.Names {
					obj := env.Info.ObjectOf(name)
					if obj == nil {
						continue
					}
					if len(vs.Values) == len(vs.Names) {
						val, known := env.evalAny(vs.Values[i], v)
						set(obj, val, known)
					} else if len(vs.Values) == 0 && basicZero(obj) {
						set(obj, 0, true)
					} else {
						set(obj, 0, false)
					}
				}
			}
		}
	case *ast.ValueSpec:
		for i, name := range n.Names {
			obj := env.Info.ObjectOf(name)
			if obj == nil {
				continue
			}
			if len(n.Values) == len(n.Names) {
				val, known := env.evalAny(n.Values[i], v)
				set(obj, val, known)
			} else if len(n.Values) == 0 && basicZero(obj) {
				set(obj, 0, true)
			} else {
				set(obj, 0, false)
			}
		}
	case *ast.IncDecStmt:
		if id, ok := ast.Unparen(n.X).(*ast.Ident); ok {
			old, known := env.evalInt(id, v)
			if n.Tok == token.INC {
				old++
			} else {
				old--
			}
			set(env.Info.ObjectOf(id), old, known)
		}
	}
	if x.Cond != nil && x.Cond.Range != nil {
		for _, l := range []ast.Expr{x.Cond.Range.Key, x.Cond.Range.Value} {
			if id, ok := l.(*ast.Ident); ok {
				set(env.Info.ObjectOf(id), 0, false)
			}
		}
	}
	if out == nil {
		return store
	}
	return out
}

func storeKey(x *V, store map[types.Object]int64) string {
	if len(store) == 0 {
		return fmt.Sprint(x.ID)
	}
	parts := make([]string, 0, len(store))
	for k, n := range store {
		parts = append(parts, fmt.Sprintf("%d=%d", k.Pos(), n))
	}
	sort.Strings(parts)
	return fmt.Sprint(x.ID) + "|" + strings.Join(parts, ",")
}

// ByteState gives a site predicate access to the values known at a vertex.
type ByteState struct {
	env *ByteEnv
	// Byte is the value of the byte variable on this exploration.
	Byte int
}

// IsByte reports whether e denotes the input byte itself (the variable, an
// alias, a conversion or a tracked copy of it).
func (s *ByteState) IsByte(e ast.Expr) bool { return s.env.isVar(e) }

// Tracked reports whether the exploration follows the values of obj.
func (s *ByteState) Tracked(obj types.Object) bool { return s.env.unt != nil && !s.env.unt[obj] }

// Int evaluates an integer expression in the current state.
func (s *ByteState) Int(e ast.Expr) (int64, bool) { return s.env.evalInt(e, s.Byte) }

// Bool evaluates a boolean expression in the current state.
func (s *ByteState) Bool(e ast.Expr) (bool, bool) { return s.env.EvalBool(e, s.Byte) }

// ReachSet computes, for every byte value v, whether `site` can be reached
// from one of `starts` (inclusive) when every branch whose condition is decided by
// Var = v is taken accordingly (other branches are explored both ways).
// stop vertices end a path (e.g. reassignments of the variable).
//
// The exploration tracks the values of local variables that are assigned
// constants or values computed from the byte (flags such as "escaped := true",
// "d := hexDigit(b)"), so that decisions routed through such variables or
// through small helper functions are followed; variables assigned inside
// function literals or whose address is taken are never tracked.  When the
// number of states explodes the tracking is switched off for that byte value,
// which explores a superset of the paths.
func (env *ByteEnv) ReachSet(g *Graph, starts []*V, site func(*V) bool, stop func(*V) bool) ByteSet {
	return env.ReachSetState(g, starts, func(x *V, _ *ByteState) bool { return site(x) }, stop)
}

// ReachSetState is ReachSet with a site predicate that can evaluate
// expressions in the state in which the vertex is reached (before the vertex
// itself is executed).
func (env *ByteEnv) ReachSetState(g *Graph, starts []*V, site func(*V, *ByteState) bool, stop func(*V) bool) ByteSet {
	if g.Body != nil {
		env.Body = g.Body
	}
	var out ByteSet
	var skip *ast.FuncLit
	var body ast.Node = g.Body
	if g.Fn != nil && g.Fn.Decl != nil && g.Fn.Decl.Body != nil {
		if g.Body != g.Fn.Decl.Body {
			ast.Inspect(g.Fn.Decl.Body, func(n ast.Node) bool {
				if l, ok := n.(*ast.FuncLit); ok && l.Body == g.Body {
					skip = l
				}
				return true
			})
		}
		body = g.Fn.Decl.Body
	}
	unt := untracked(env.Info, body, skip)
	env.unt = unt
	defer func() { env.unt = nil }()
	type item struct {
		x     *V
		store map[types.Object]int64
	}
	for v := 0; v < 256; v++ {
		track := true
	again:
		seen := map[string]bool{}
		var stack []item
		push := func(x *V, st map[types.Object]int64) {
			if !track {
				st = nil
			}
			k := storeKey(x, st)
			if !seen[k] {
				seen[k] = true
				stack = append(stack, item{x, st})
			}
		}
		for _, st := range starts {
			if st != nil {
				push(st, nil)
			}
		}
		found := false
		for len(stack) > 0 && !found {
			it := stack[len(stack)-1]
			stack = stack[:len(stack)-1]
			x := it.x
			env.cur = it.store
			if site(x, &ByteState{env: env, Byte: v}) {
				found = true
				break
			}
			if stop != nil && stop(x) {
				continue
			}
			store := it.store
			if track {
				store = env.step(x, it.store, v, unt)
				env.cur = store
			}
			take := EdgeNone
			if x.Cond != nil {
				take = env.evalCond(x.Cond, v)
			}
			for _, e := range x.Succs {
				if take != EdgeNone && e.Label != EdgeNone && e.Label != take {
					continue
				}
				push(e.To, store)
			}
			if track && len(seen) > 20000 {
				track = false
				env.cur = nil
				goto again
			}
		}
		env.cur = nil
		out[v] = found
	}
	return out
}

// Traces computes, for every byte value, the set of emission traces of the
// paths from starts to a stop vertex (or to the end of the function): emit
// names what a vertex hands to the output in the state in which it is reached
// ("" for nothing); a trace is the comma-separated sequence of these names.
// Traces longer than maxLen items are cut off with "...".  Branches and local
// variables are followed as in ReachSet.
func (env *ByteEnv) Traces(g *Graph, starts []*V, emit func(*V, *ByteState) string, stop func(*V) bool, maxLen int) [256]map[string]bool {
	if g.Body != nil {
		env.Body = g.Body
	}
	var out [256]map[string]bool
	var skip *ast.FuncLit
	var body ast.Node = g.Body
	if g.Fn != nil && g.Fn.Decl != nil && g.Fn.Decl.Body != nil {
		if g.Body != g.Fn.Decl.Body {
			ast.Inspect(g.Fn.Decl.Body, func(n ast.Node) bool {
				if l, ok := n.(*ast.FuncLit); ok && l.Body == g.Body {
					skip = l
				}
				return true
			})
		}
		body = g.Fn.Decl.Body
	}
	unt := untracked(env.Info, body, skip)
	env.unt = unt
	defer func() { env.unt = nil; env.cur = nil }()
	type item struct {
		x     *V
		store map[types.Object]int64
		aux   string
		n     int
	}
	for v := 0; v < 256; v++ {
		out[v] = map[string]bool{}
		track := true
	again:
		seen := map[string]bool{}
		var stack []item
		push := func(x *V, st map[types.Object]int64, aux string, n int) {
			if !track {
				st = nil
			}
			k := storeKey(x, st) + "#" + aux
			if !seen[k] {
				seen[k] = true
				stack = append(stack, item{x, st, aux, n})
			}
		}
		for _, st := range starts {
			if st != nil {
				push(st, nil, "", 0)
			}
		}
		for len(stack) > 0 {
			it := stack[len(stack)-1]
			stack = stack[:len(stack)-1]
			x := it.x
			env.cur = it.store
			if stop != nil && stop(x) {
				out[v][it.aux] = true
				continue
			}
			if x == g.Exit || x == g.Panic {
				if stop == nil {
					out[v][it.aux] = true
				}
				// with a stop predicate only the paths that reach a stop vertex count
				continue
			}
			aux, n := it.aux, it.n
			if tok := emit(x, &ByteState{env: env, Byte: v}); tok != "" {
				if n < maxLen {
					if aux != "" {
						aux += ","
					}
					aux += tok
					n++
				} else if !strings.HasSuffix(aux, "...") {
					aux += ",..."
				}
			}
			store := it.store
			if track {
				store = env.step(x, it.store, v, unt)
				env.cur = store
			}
			take := EdgeNone
			if x.Cond != nil {
				take = env.evalCond(x.Cond, v)
			}
			for _, e := range x.Succs {
				if take != EdgeNone && e.Label != EdgeNone && e.Label != take {
					continue
				}
				push(e.To, store, aux, n)
			}
			if track && len(seen) > 20000 {
				track = false
				env.cur = nil
				out[v] = map[string]bool{}
				goto again
			}
		}
		env.cur = nil
	}
	return out
}

// SortedKeys returns the sorted keys of a string-keyed map.
func SortedKeys[T any](m map[string]T) []string {
	out := make([]string, 0, len(m))
	for k := range m {
		out = append(out, k)
	}
	sort.Strings(out)
	return out
}

// ReachFromTracked is ReachFrom restricted to feasible paths: the values of
// local variables that are assigned constants (flags, enumerations such as
// "role = owner ... switch role") are tracked along each path and the
// branches that test them are taken accordingly.  Without such variables the
// result equals ReachFrom.  Variables assigned in function literals or whose
// address is taken are not tracked; on state explosion the tracking is given
// up (plain reachability, a superset).
func (g *Graph) ReachFromTracked(from *V, startAt bool, avoid *Avoid) map[*V]bool {
	if g.trackGaveUp {
		// the state space of this function exceeded the bound before: the
		// part before `from` is the same for every query, so it would again
		return g.reachPlain(from, startAt, avoid)
	}
	env := &ByteEnv{Info: g.Info, Tables: map[types.Object][]int64{}}
	if g.Fn != nil {
		env.Prog = g.Fn.Prog
	}
	unt := g.untrackedVars()
	env.unt = unt
	g.usesFlags()
	env.only = g.flagVars
	defer func() { env.unt = nil; env.cur = nil }()
	// The exploration starts at the entry of the function, so that the
	// values the flags have when `from` is reached are known; only what is
	// reached after passing `from` counts, and the vertices and edges to
	// avoid are avoided only then.
	type item struct {
		x      *V
		store  map[types.Object]int64
		passed bool
	}
	out := map[*V]bool{}
	seen := map[string]bool{}
	var stack []item
	push := func(x *V, st map[types.Object]int64, passed bool) {
		if passed && avoid.v(x) {
			return
		}
		k := storeKey(x, st)
		if passed {
			k += "+"
		}
		if !seen[k] {
			seen[k] = true
			stack = append(stack, item{x, st, passed})
		}
	}
	if from == g.Entry {
		push(g.Entry, nil, startAt)
	} else {
		push(g.Entry, nil, false)
	}
	reachedFrom := false
	for len(stack) > 0 {
		it := stack[len(stack)-1]
		stack = stack[:len(stack)-1]
		x := it.x
		passed := it.passed
		if x == from && !passed {
			reachedFrom = true
			if startAt {
				if avoid.v(x) {
					continue
				}
				passed = true
			}
		}
		if passed {
			out[x] = true
		}
		env.cur = it.store
		store := env.step(x, it.store, 0, unt)
		env.cur = store
		take := EdgeNone
		if x.Cond != nil {
			take = env.evalCond(x.Cond, 0)
		}
		nextPassed := passed || x == from
		for _, e := range x.Succs {
			if take != EdgeNone && e.Label != EdgeNone && e.Label != take {
				continue
			}
			if nextPassed && avoid.e(x, e.Label) {
				continue
			}
			push(e.To, g.refineNil(x, e.Label, store, env.only), nextPassed)
		}
		if len(seen) > 12000 {
			if os.Getenv("PDFVERIF_DEBUG_FLAGS") != "" && g.Fn != nil {
				fmt.Fprintf(os.Stderr, "flag tracking given up in %s (%d flag variables)\n", g.Fn.Key, len(g.flagVars))
			}
			g.trackGaveUp = true
			return g.reachPlain(from, startAt, avoid)
		}
	}
	if !reachedFrom && from != g.Entry {
		// from is not reachable on a feasible path from the entry (or lies
		// in code the entry does not reach): fall back to plain reachability
		return g.reachPlain(from, startAt, avoid)
	}
	return out
}

// DominatesTracked reports whether every feasible path (see
// ReachFromTracked) from the entry to site passes d.
func (g *Graph) DominatesTracked(d, site *V) bool {
	if d == site || g.Dominates(d, site) {
		return true
	}
	return !g.ReachFromTracked(g.Entry, true, AvoidVs(d))[site]
}

// MustPassBeforeTracked: every feasible path from `from` to one of targets
// passes one of via.
func (g *Graph) MustPassBeforeTracked(from *V, targets []*V, via []*V) bool {
	r := g.ReachFromTracked(from, false, AvoidVs(via...))
	for _, t := range targets {
		if r[t] {
			return false
		}
	}
	return true
}

// untrackedVars caches untracked() for the graph's function.
func (g *Graph) untrackedVars() map[types.Object]bool {
	g.untOnce.Do(func() {
		var skip *ast.FuncLit
		var body ast.Node = g.Body
		if g.Fn != nil && g.Fn.Decl != nil && g.Fn.Decl.Body != nil {
			if g.Body != g.Fn.Decl.Body {
				ast.Inspect(g.Fn.Decl.Body, func(n ast.Node) bool {
					if l, ok := n.(*ast.FuncLit); ok && l.Body == g.Body {
						skip = l
					}
					return true
				})
			}
			body = g.Fn.Decl.Body
		}
		g.unt = untracked(g.Info, body, skip)
	})
	return g.unt
}

// refineNil: leaving a nil test of a tracked local through one of its edges
// tells whether the local is nil (0) or not (1).
func (g *Graph) refineNil(x *V, l EdgeLabel, store map[types.Object]int64, tracked map[types.Object]bool) map[types.Object]int64 {
	if x.Cond == nil || x.Cond.Expr == nil || l == EdgeNone {
		return store
	}
	out := store
	for _, a := range x.Implied(l) {
		obj, k, eq, ok := g.flagTest(a)
		if !ok || k != 0 || !nilable(obj) || !tracked[obj] {
			continue
		}
		if _, known := out[obj]; known {
			continue
		}
		cp := make(map[types.Object]int64, len(out)+1)
		for kk, vv := range out {
			cp[kk] = vv
		}
		if eq {
			cp[obj] = 0
		} else {
			cp[obj] = 1
		}
		out = cp
	}
	return out
}
