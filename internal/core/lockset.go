package core

import (
	"go/ast"
	"go/types"
	"strings"
)

// LockOps classifies calls on a particular mutex.
type LockOps struct {
	Info    *types.Info
	IsMutex func(recv ast.Expr) bool // does the receiver expression denote the mutex of interest?
}

// lockCall reports whether the vertex is a Lock/RLock (+1), Unlock/RUnlock
// (-1) call statement on the mutex, or a deferred unlock (2).
func (lo *LockOps) lockCall(v *V) int {
	if v.AST == nil {
		return 0
	}
	check := func(call *ast.CallExpr) int {
		se, ok := call.Fun.(*ast.SelectorExpr)
		if !ok || !lo.IsMutex(se.X) {
			return 0
		}
		switch se.Sel.Name {
		case "Lock", "RLock":
			return 1
		case "Unlock", "RUnlock":
			return -1
		}
		return 0
	}
	switch s := v.AST.(type) {
	case *ast.ExprStmt:
		if call, ok := s.X.(*ast.CallExpr); ok {
			return check(call)
		}
	case *ast.DeferStmt:
		if check(s.Call) == -1 {
			return 2
		}
	}
	return 0
}

// LockState is the result of the must-hold analysis.
type LockState struct {
	HeldAt   map[*V]bool // lock is held on every path when the vertex starts executing
	MaybeAt  map[*V]bool // lock may be held on some path
	Deferred map[*V]bool // a deferred unlock has been registered on every path
	Problems []string
	Locks    []*V
	Unlocks  []*V
}

// Analyze runs a forward analysis of the lock over g.  The abstract state
// at a vertex is the set of (held, unlock-deferred) pairs that some path
// reaches it with (a 4-element powerset, so the analysis is path-sensitive
// with respect to exactly these two facts).
func (lo *LockOps) Analyze(g *Graph) *LockState {
	st := &LockState{HeldAt: map[*V]bool{}, MaybeAt: map[*V]bool{}, Deferred: map[*V]bool{}}
	in := map[*V]uint8{} // bitmask over states 0..3: bit0 of the state = held, bit1 = deferred
	in[g.Entry] = 1 << 0
	work := []*V{g.Entry}
	transfer := func(v *V, mask uint8) uint8 {
		op := lo.lockCall(v)
		if op == 0 {
			return mask
		}
		var out uint8
		for s := uint8(0); s < 4; s++ {
			if mask&(1<<s) == 0 {
				continue
			}
			ns := s
			switch op {
			case 1:
				ns = s | 1
			case -1:
				ns = s &^ 1
			case 2:
				ns = s | 2
			}
			out |= 1 << ns
		}
		return out
	}
	for len(work) > 0 {
		v := work[len(work)-1]
		work = work[:len(work)-1]
		out := transfer(v, in[v])
		for _, e := range v.Succs {
			if in[e.To]|out != in[e.To] {
				in[e.To] |= out
				work = append(work, e.To)
			}
		}
	}
	anyHeld := func(m uint8) bool { return m&(1<<1|1<<3) != 0 }
	allHeld := func(m uint8) bool { return m != 0 && m&(1<<0|1<<2) == 0 }
	for _, v := range g.Vs {
		m, ok := in[v]
		if !ok || m == 0 {
			continue
		}
		st.HeldAt[v] = allHeld(m)
		st.MaybeAt[v] = anyHeld(m)
		st.Deferred[v] = m&(1<<0|1<<1) == 0
		switch lo.lockCall(v) {
		case 1:
			st.Locks = append(st.Locks, v)
			if anyHeld(m) {
				st.Problems = append(st.Problems, g.Fn.Prog.Pos(v.AST.Pos())+": Lock while the lock may already be held (self-deadlock)")
			}
		case -1:
			st.Unlocks = append(st.Unlocks, v)
			if !allHeld(m) {
				st.Problems = append(st.Problems, g.Fn.Prog.Pos(v.AST.Pos())+": Unlock on a path where the lock is not held")
			}
			if m&(1<<2|1<<3) != 0 {
				st.Problems = append(st.Problems, g.Fn.Prog.Pos(v.AST.Pos())+": explicit Unlock although an Unlock is already deferred (double unlock at return)")
			}
		}
	}
	// at exit: some path ends with the lock held and no deferred unlock
	if m := in[g.Exit]; m&(1<<1) != 0 {
		st.Problems = append(st.Problems, g.Fn.Key+": the lock may still be held when the function returns")
	}
	if m := in[g.Exit]; m&(1<<2) != 0 {
		st.Problems = append(st.Problems, g.Fn.Key+": a deferred Unlock runs on a path where the lock is not held")
	}
	return st
}

// MutexField returns a predicate for "expr selects field `field` of the
// named struct type".
func MutexField(info *types.Info, shortPkg, typ, field string) func(ast.Expr) bool {
	return func(e ast.Expr) bool {
		_, ok := FieldSel(info, e, shortPkg, typ, field)
		return ok
	}
}

// MutexVar returns a predicate for "expr is the package-level variable obj".
func MutexVar(info *types.Info, obj types.Object) func(ast.Expr) bool {
	return func(e ast.Expr) bool {
		return ObjOf(info, e) == obj
	}
}

// CallName renders the callee of a call for diagnostics.
func CallName(info *types.Info, call *ast.CallExpr) string {
	if k := CalleeKey(info, call); k != "" {
		return k
	}
	return strings.TrimSpace(ExprStr(call.Fun))
}
