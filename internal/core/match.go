package core

import (
	"go/ast"
	"go/constant"
	"go/printer"
	"go/token"
	"go/types"
	"strings"

	"golang.org/x/tools/go/types/typeutil"
)

// Callee resolves the statically known callee of a call (function, method,
// or interface method), or nil.
func Callee(info *types.Info, call *ast.CallExpr) *types.Func {
	fn, _ := typeutil.Callee(info, call).(*types.Func)
	if fn != nil {
		return fn.Origin()
	}
	return nil
}

// CalleeKey returns the key of the callee of call, "" if unknown.
// Builtins yield "builtin.<name>".
func CalleeKey(info *types.Info, call *ast.CallExpr) string {
	if id, ok := ast.Unparen(call.Fun).(*ast.Ident); ok {
		if b, ok := info.Uses[id].(*types.Builtin); ok {
			return "builtin." + b.Name()
		}
	}
	fn := Callee(info, call)
	if fn == nil {
		return ""
	}
	return FuncKey(fn)
}

// IsCallTo reports whether e is a call to one of the functions given by key.
func IsCallTo(info *types.Info, e ast.Expr, keys ...string) (*ast.CallExpr, bool) {
	call, ok := ast.Unparen(e).(*ast.CallExpr)
	if !ok {
		return nil, false
	}
	k := CalleeKey(info, call)
	for _, want := range keys {
		if k == want {
			return call, true
		}
	}
	return nil, false
}

// Calls lists every call expression inside root (descending into function
// literals when lits is true) together with the callee key.
type CallSite struct {
	Call *ast.CallExpr
	Key  string
	Fn   *types.Func
}

func CallsIn(info *types.Info, root ast.Node, lits bool) []CallSite {
	var out []CallSite
	ast.Inspect(root, func(n ast.Node) bool {
		if _, ok := n.(*ast.FuncLit); ok && !lits {
			return false
		}
		if call, ok := n.(*ast.CallExpr); ok {
			out = append(out, CallSite{Call: call, Key: CalleeKey(info, call), Fn: Callee(info, call)})
		}
		return true
	})
	return out
}

// CallsTo filters CallsIn by callee key.
func CallsTo(info *types.Info, root ast.Node, lits bool, keys ...string) []*ast.CallExpr {
	var out []*ast.CallExpr
	for _, cs := range CallsIn(info, root, lits) {
		for _, k := range keys {
			if cs.Key == k {
				out = append(out, cs.Call)
			}
		}
	}
	return out
}

// ConstOf returns the constant value of an expression, if it has one.
func ConstOf(info *types.Info, e ast.Expr) constant.Value {
	if tv, ok := info.Types[e]; ok && tv.Value != nil {
		return tv.Value
	}
	return nil
}

// IntConst returns the integer constant value of e.
func IntConst(info *types.Info, e ast.Expr) (int64, bool) {
	v := ConstOf(info, e)
	if v == nil {
		return 0, false
	}
	v = constant.ToInt(v)
	if v.Kind() != constant.Int {
		return 0, false
	}
	return constant.Int64Val(v)
}

// StringConst returns the string constant value of e.  A conversion of a
// constant string to []byte or a named string type is looked through.
func StringConst(info *types.Info, e ast.Expr) (string, bool) {
	e = ast.Unparen(e)
	if v := ConstOf(info, e); v != nil && v.Kind() == constant.String {
		return constant.StringVal(v), true
	}
	if call, ok := e.(*ast.CallExpr); ok && len(call.Args) == 1 {
		if tv, ok := info.Types[call.Fun]; ok && tv.IsType() {
			return StringConst(info, call.Args[0])
		}
	}
	return "", false
}

// ObjOf returns the object an identifier (possibly parenthesised) denotes.
func ObjOf(info *types.Info, e ast.Expr) types.Object {
	switch x := ast.Unparen(e).(type) {
	case *ast.Ident:
		return info.ObjectOf(x)
	case *ast.SelectorExpr:
		return info.ObjectOf(x.Sel)
	}
	return nil
}

// IsNil reports whether e is the predeclared nil.
func IsNil(info *types.Info, e ast.Expr) bool {
	id, ok := ast.Unparen(e).(*ast.Ident)
	if !ok {
		return false
	}
	_, isNil := info.ObjectOf(id).(*types.Nil)
	return isNil
}

// SameExpr reports structural equality of two side-effect free
// expressions, resolving identifiers to objects.
func SameExpr(info *types.Info, a, b ast.Expr) bool {
	a, b = ast.Unparen(a), ast.Unparen(b)
	switch x := a.(type) {
	case *ast.Ident:
		y, ok := b.(*ast.Ident)
		if !ok {
			return false
		}
		ox, oy := info.ObjectOf(x), info.ObjectOf(y)
		if ox == nil || oy == nil {
			return x.Name == y.Name
		}
		return ox == oy
	case *ast.SelectorExpr:
		y, ok := b.(*ast.SelectorExpr)
		return ok && x.Sel.Name == y.Sel.Name && info.ObjectOf(x.Sel) == info.ObjectOf(y.Sel) && SameExpr(info, x.X, y.X)
	case *ast.IndexExpr:
		y, ok := b.(*ast.IndexExpr)
		return ok && SameExpr(info, x.X, y.X) && SameExpr(info, x.Index, y.Index)
	case *ast.BasicLit:
		y, ok := b.(*ast.BasicLit)
		if ok {
			return x.Kind == y.Kind && x.Value == y.Value
		}
		va, vb := ConstOf(info, a), ConstOf(info, b)
		return va != nil && vb != nil && constant.Compare(va, token.EQL, vb)
	case *ast.StarExpr:
		y, ok := b.(*ast.StarExpr)
		return ok && SameExpr(info, x.X, y.X)
	case *ast.UnaryExpr:
		y, ok := b.(*ast.UnaryExpr)
		return ok && x.Op == y.Op && SameExpr(info, x.X, y.X)
	case *ast.BinaryExpr:
		y, ok := b.(*ast.BinaryExpr)
		return ok && x.Op == y.Op && SameExpr(info, x.X, y.X) && SameExpr(info, x.Y, y.Y)
	case *ast.CallExpr:
		y, ok := b.(*ast.CallExpr)
		if !ok || len(x.Args) != len(y.Args) || !SameExpr(info, x.Fun, y.Fun) {
			return false
		}
		for i := range x.Args {
			if !SameExpr(info, x.Args[i], y.Args[i]) {
				return false
			}
		}
		return true
	case *ast.SliceExpr:
		y, ok := b.(*ast.SliceExpr)
		if !ok || !SameExpr(info, x.X, y.X) {
			return false
		}
		eq := func(p, q ast.Expr) bool {
			if p == nil || q == nil {
				return p == nil && q == nil
			}
			return SameExpr(info, p, q)
		}
		return eq(x.Low, y.Low) && eq(x.High, y.High) && eq(x.Max, y.Max)
	}
	return false
}

// Cmp is a normalised comparison "L op R".
type Cmp struct {
	L, R ast.Expr
	Op   token.Token
}

// NegOp returns the negation of a comparison operator.
func NegOp(op token.Token) token.Token {
	switch op {
	case token.EQL:
		return token.NEQ
	case token.NEQ:
		return token.EQL
	case token.LSS:
		return token.GEQ
	case token.GEQ:
		return token.LSS
	case token.GTR:
		return token.LEQ
	case token.LEQ:
		return token.GTR
	}
	return token.ILLEGAL
}

// FlipOp mirrors a comparison operator (a op b == b flip(op) a).
func FlipOp(op token.Token) token.Token {
	switch op {
	case token.LSS:
		return token.GTR
	case token.GTR:
		return token.LSS
	case token.LEQ:
		return token.GEQ
	case token.GEQ:
		return token.LEQ
	}
	return op
}

// AsCmp interprets an atom as a comparison that is known to HOLD (negated
// atoms have their operator negated; tagged-switch atoms become Tag == Expr).
func (a Atom) AsCmp() (Cmp, bool) {
	if a.Tag != nil {
		op := token.EQL
		if a.Neg {
			op = token.NEQ
		}
		return Cmp{L: a.Tag, R: a.Expr, Op: op}, true
	}
	be, ok := ast.Unparen(a.Expr).(*ast.BinaryExpr)
	if !ok {
		return Cmp{}, false
	}
	switch be.Op {
	case token.EQL, token.NEQ, token.LSS, token.LEQ, token.GTR, token.GEQ:
	default:
		return Cmp{}, false
	}
	op := be.Op
	if a.Neg {
		op = NegOp(op)
	}
	return Cmp{L: be.X, R: be.Y, Op: op}, true
}

// HoldsCall reports whether the atom states that a call to one of the given
// functions returned true (neg=false) or false (neg=true).
func (a Atom) HoldsCall(info *types.Info, neg bool, keys ...string) (*ast.CallExpr, bool) {
	if a.Tag != nil || a.Neg != neg {
		return nil, false
	}
	return IsCallTo(info, a.Expr, keys...)
}

// TypeString renders a type with short package qualifiers.
func TypeString(t types.Type) string {
	return types.TypeString(t, func(p *types.Package) string { return ShortPkg(p.Path()) })
}

// NamedOf returns the named type behind t (through pointers), or nil.
func NamedOf(t types.Type) *types.Named {
	for {
		switch x := t.(type) {
		case *types.Pointer:
			t = x.Elem()
		case *types.Alias:
			t = types.Unalias(x)
		case *types.Named:
			return x
		default:
			return nil
		}
	}
}

// IsNamed reports whether t (through pointers) is the named type pkg.name.
func IsNamed(t types.Type, shortPkg, name string) bool {
	n := NamedOf(t)
	if n == nil || n.Obj().Pkg() == nil {
		return false
	}
	return ShortPkg(n.Obj().Pkg().Path()) == shortPkg && n.Obj().Name() == name
}

// ExprStr renders an expression compactly.
func ExprStr(e ast.Expr) string {
	if e == nil {
		return "<nil>"
	}
	return types.ExprString(literalRight(e))
}

// literalRight returns e with every comparison that has a literal on the
// left and none on the right turned round (0 < n becomes n > 0): the two say
// the same, and the rules read conditions in the second form.  Nodes are
// copied only along the path to a comparison that changes.
func literalRight(e ast.Expr) ast.Expr {
	switch x := e.(type) {
	case *ast.ParenExpr:
		if in := literalRight(x.X); in != x.X {
			return &ast.ParenExpr{Lparen: x.Lparen, X: in, Rparen: x.Rparen}
		}
	case *ast.UnaryExpr:
		if in := literalRight(x.X); in != x.X {
			return &ast.UnaryExpr{OpPos: x.OpPos, Op: x.Op, X: in}
		}
	case *ast.BinaryExpr:
		l, r := literalRight(x.X), literalRight(x.Y)
		op := x.Op
		if flipped, ok := flipCmp[op]; ok && isLiteral(l) && !isLiteral(r) {
			return &ast.BinaryExpr{X: r, OpPos: x.OpPos, Op: flipped, Y: l}
		}
		if l != x.X || r != x.Y {
			return &ast.BinaryExpr{X: l, OpPos: x.OpPos, Op: op, Y: r}
		}
	}
	return e
}

// ConstRight is literalRight with type information: a comparison with a
// constant (literal, named constant, nil) on the left and none on the right
// is turned round.  The conditions of the control-flow graph are kept in this
// form, so that "0 <= n" and "n >= 0" are the same fact to every rule.  The
// copied nodes get the type information of the originals.
func ConstRight(info *types.Info, e ast.Expr) ast.Expr {
	if info == nil {
		return literalRight(e)
	}
	isConst := func(x ast.Expr) bool {
		if isLiteral(x) {
			return true
		}
		tv, ok := info.Types[x]
		return ok && (tv.Value != nil || tv.IsNil())
	}
	// the operand that is a fixed thing goes to the right: variable things (locals, fields,
	// calls, anything computed from them) rank 0, package-level variables such as error
	// sentinels 3, constants 4
	var rank func(e ast.Expr) int
	rank = func(e ast.Expr) int {
		e = ast.Unparen(e)
		if isConst(e) {
			return 4
		}
		switch x := e.(type) {
		case *ast.Ident:
			if v, ok := info.Uses[x].(*types.Var); ok && v.Pkg() != nil && v.Parent() == v.Pkg().Scope() {
				return 3
			}
		case *ast.SelectorExpr:
			if v, ok := info.Uses[x.Sel].(*types.Var); ok && !v.IsField() && v.Pkg() != nil && v.Parent() == v.Pkg().Scope() {
				return 3 // pkg.Var
			}
		}
		return 0
	}
	var norm func(e ast.Expr) ast.Expr
	norm = func(e ast.Expr) ast.Expr {
		var out ast.Expr
		switch x := e.(type) {
		case *ast.ParenExpr:
			if in := norm(x.X); in != x.X {
				out = &ast.ParenExpr{Lparen: x.Lparen, X: in, Rparen: x.Rparen}
			}
		case *ast.UnaryExpr:
			if x.Op != token.NOT {
				return e
			}
			if in := norm(x.X); in != x.X {
				out = &ast.UnaryExpr{OpPos: x.OpPos, Op: x.Op, X: in}
			}
		case *ast.BinaryExpr:
			if x.Op == token.LAND || x.Op == token.LOR {
				l, r := norm(x.X), norm(x.Y)
				if l != x.X || r != x.Y {
					out = &ast.BinaryExpr{X: l, OpPos: x.OpPos, Op: x.Op, Y: r}
				}
			} else if flipped, ok := flipCmp[x.Op]; ok && rank(x.X) > rank(x.Y) {
				out = &ast.BinaryExpr{X: x.Y, OpPos: x.OpPos, Op: flipped, Y: x.X}
			}
		}
		if out == nil {
			return e
		}
		if tv, ok := info.Types[e]; ok {
			info.Types[out] = tv
		}
		return out
	}
	return norm(e)
}

var flipCmp = map[token.Token]token.Token{token.LSS: token.GTR, token.LEQ: token.GEQ, token.GTR: token.LSS, token.GEQ: token.LEQ, token.EQL: token.EQL, token.NEQ: token.NEQ}

func isLiteral(e ast.Expr) bool {
	switch x := ast.Unparen(e).(type) {
	case *ast.BasicLit:
		return true
	case *ast.Ident:
		return x.Name == "nil" || x.Name == "true" || x.Name == "false"
	case *ast.UnaryExpr:
		return (x.Op == token.SUB || x.Op == token.ADD) && isLiteral(x.X)
	}
	return false
}

// FieldSel reports whether e is a selection of field `field` on a value of
// the named type (pkg, typ) and returns the base expression.
func FieldSel(info *types.Info, e ast.Expr, shortPkg, typ, field string) (ast.Expr, bool) {
	se, ok := ast.Unparen(e).(*ast.SelectorExpr)
	if !ok || se.Sel.Name != field {
		return nil, false
	}
	sel := info.Selections[se]
	if sel == nil || sel.Kind() != types.FieldVal {
		return nil, false
	}
	v, ok := sel.Obj().(*types.Var)
	if !ok || !v.IsField() {
		return nil, false
	}
	// owner of the field
	if !fieldOwnerIs(v, shortPkg, typ) {
		return nil, false
	}
	return se.X, true
}

func fieldOwnerIs(v *types.Var, shortPkg, typ string) bool {
	if v.Pkg() == nil || ShortPkg(v.Pkg().Path()) != shortPkg {
		return false
	}
	obj := v.Pkg().Scope().Lookup(typ)
	tn, ok := obj.(*types.TypeName)
	if !ok {
		return false
	}
	st, ok := tn.Type().Underlying().(*types.Struct)
	if !ok {
		return false
	}
	for i := 0; i < st.NumFields(); i++ {
		if st.Field(i) == v {
			return true
		}
	}
	return false
}

// Assignments to an object: returns every assignment/definition/inc-dec
// statement inside root whose left-hand side is exactly the object.
func AssignsTo(info *types.Info, root ast.Node, obj types.Object) []ast.Node {
	var out []ast.Node
	ast.Inspect(root, func(n ast.Node) bool {
		switch s := n.(type) {
		case *ast.AssignStmt:
			for _, l := range s.Lhs {
				if id, ok := ast.Unparen(l).(*ast.Ident); ok && info.ObjectOf(id) == obj {
					out = append(out, s)
				}
			}
		case *ast.IncDecStmt:
			if id, ok := ast.Unparen(s.X).(*ast.Ident); ok && info.ObjectOf(id) == obj {
				out = append(out, s)
			}
		case *ast.ValueSpec:
			for _, nm := range s.Names {
				if info.ObjectOf(nm) == obj {
					out = append(out, s)
				}
			}
		case *ast.RangeStmt:
			for _, l := range []ast.Expr{s.Key, s.Value} {
				if l == nil {
					continue
				}
				if id, ok := ast.Unparen(l).(*ast.Ident); ok && info.ObjectOf(id) == obj {
					out = append(out, s)
				}
			}
		}
		return true
	})
	return out
}

// Mentions reports whether the expression refers to the object.
func Mentions(info *types.Info, root ast.Node, obj types.Object) bool {
	found := false
	ast.Inspect(root, func(n ast.Node) bool {
		if id, ok := n.(*ast.Ident); ok && info.ObjectOf(id) == obj {
			found = true
		}
		return !found
	})
	return found
}

// MapIndexKey: for an expression m["Key"] with constant string key returns
// the map expression and the key.
func MapIndexKey(info *types.Info, e ast.Expr) (ast.Expr, string, bool) {
	ix, ok := ast.Unparen(e).(*ast.IndexExpr)
	if !ok {
		return nil, "", false
	}
	if _, isMap := info.TypeOf(ix.X).Underlying().(*types.Map); !isMap {
		return nil, "", false
	}
	k, ok := StringConst(info, ix.Index)
	if !ok {
		return nil, "", false
	}
	return ix.X, k, true
}

// DictKeysWritten collects the constant keys K of statements m[K] = v and of
// composite literals of map type with constant keys, inside root, for maps
// whose type is the named type (pkg,typ) (e.g. pdf.Dict).
func DictKeysWritten(info *types.Info, root ast.Node, shortPkg, typ string) map[string][]ast.Node {
	out := map[string][]ast.Node{}
	ast.Inspect(root, func(n ast.Node) bool {
		switch s := n.(type) {
		case *ast.AssignStmt:
			for _, l := range s.Lhs {
				if m, k, ok := MapIndexKey(info, l); ok && IsNamed(info.TypeOf(m), shortPkg, typ) {
					out[k] = append(out[k], s)
				} else if ix, isIx := ast.Unparen(l).(*ast.IndexExpr); isIx && IsNamed(info.TypeOf(ix.X), shortPkg, typ) {
					// m[key] = v inside a local setter called with constant keys
					if ks, sites, found := keysViaParam(info, root, ix); found {
						for i, k := range ks {
							out[k] = append(out[k], sites[i])
						}
					}
				}
			}
		case *ast.CompositeLit:
			if t := info.TypeOf(s); t != nil && IsNamed(t, shortPkg, typ) {
				for _, el := range s.Elts {
					if kv, ok := el.(*ast.KeyValueExpr); ok {
						if k, ok := StringConst(info, kv.Key); ok {
							out[k] = append(out[k], kv)
						}
					}
				}
			}
		}
		return true
	})
	return out
}

// DictKeysRead collects constant keys of index expressions m[K] on maps of
// the named type that are not assignment targets, plus keys passed as a
// constant string argument to any call whose receiver or first argument is
// such a map (helper getters), inside root.
func DictKeysRead(info *types.Info, root ast.Node, shortPkg, typ string) map[string][]ast.Node {
	out := map[string][]ast.Node{}
	var nonConst []ast.Node
	lhs := map[ast.Expr]bool{}
	ast.Inspect(root, func(n ast.Node) bool {
		if s, ok := n.(*ast.AssignStmt); ok {
			for _, l := range s.Lhs {
				lhs[ast.Unparen(l)] = true
			}
		}
		return true
	})
	ast.Inspect(root, func(n ast.Node) bool {
		switch e := n.(type) {
		case *ast.IndexExpr:
			if lhs[e] {
				return true
			}
			if m, k, ok := MapIndexKey(info, e); ok && IsNamed(info.TypeOf(m), shortPkg, typ) {
				out[k] = append(out[k], e)
			} else if IsNamed(info.TypeOf(e.X), shortPkg, typ) {
				if ks, sites, found := keysViaParam(info, root, e); found {
					// d[key] inside a local getter called with constant keys
					for i, k := range ks {
						out[k] = append(out[k], sites[i])
					}
				} else {
					nonConst = append(nonConst, e)
				}
			}
		}
		return true
	})
	// reading by visiting the entries: for key, val := range d { switch key { case "K": ... } }
	// (or key == "K"): the keys read are the constants the key variable is compared with
	ast.Inspect(root, func(n ast.Node) bool {
		rs, ok := n.(*ast.RangeStmt)
		if !ok || rs.Key == nil || !IsNamed(info.TypeOf(rs.X), shortPkg, typ) {
			return true
		}
		kobj := ObjOf(info, rs.Key)
		if kobj == nil {
			return true
		}
		strConst := func(e ast.Expr) (string, bool) {
			if tv, has := info.Types[e]; has && tv.Value != nil && tv.Value.Kind() == constant.String {
				return constant.StringVal(tv.Value), true
			}
			return "", false
		}
		ast.Inspect(rs.Body, func(m ast.Node) bool {
			switch x := m.(type) {
			case *ast.SwitchStmt:
				if x.Tag != nil && ObjOf(info, x.Tag) == kobj {
					for _, st := range x.Body.List {
						if cc, isCC := st.(*ast.CaseClause); isCC {
							for _, e := range cc.List {
								if k, isK := strConst(e); isK {
									out[k] = append(out[k], cc)
								}
							}
						}
					}
				}
			case *ast.BinaryExpr:
				if x.Op == token.EQL || x.Op == token.NEQ {
					for _, pr := range [][2]ast.Expr{{x.X, x.Y}, {x.Y, x.X}} {
						if ObjOf(info, pr[0]) == kobj {
							if k, isK := strConst(pr[1]); isK {
								out[k] = append(out[k], x)
							}
						}
					}
				}
			}
			return true
		})
		return true
	})
	// table-driven reading: d[entry.key] in a loop over a table of keys.  The
	// keys read are then the string constants of the composite literals in
	// the function (an over-approximation of what is read).
	if len(nonConst) > 0 {
		ast.Inspect(root, func(n ast.Node) bool {
			cl, ok := n.(*ast.CompositeLit)
			if !ok {
				return true
			}
			for _, el := range cl.Elts {
				v := el
				if kv, isKV := el.(*ast.KeyValueExpr); isKV {
					v = kv.Value
				}
				if tv, has := info.Types[v]; has && tv.Value != nil && tv.Value.Kind() == constant.String {
					k := constant.StringVal(tv.Value)
					out[k] = append(out[k], nonConst[0])
				}
			}
			return true
		})
	}
	return out
}

// HasPrefixAny is a tiny helper.
func HasPrefixAny(s string, ps ...string) bool {
	for _, p := range ps {
		if strings.HasPrefix(s, p) {
			return true
		}
	}
	return false
}

// EnclosingFuncLit returns the innermost function literal in root that
// contains n, or nil.
func EnclosingFuncLit(root ast.Node, n ast.Node) *ast.FuncLit {
	var best *ast.FuncLit
	ast.Inspect(root, func(m ast.Node) bool {
		if m == nil {
			return false
		}
		if m.Pos() > n.Pos() || m.End() < n.End() {
			return false
		}
		if fl, ok := m.(*ast.FuncLit); ok {
			best = fl
		}
		return true
	})
	return best
}

// Src renders a node as Go source (unlike ExprStr it does not elide
// composite literals).
func (p *Program) Src(n ast.Node) string {
	var b strings.Builder
	if err := printer.Fprint(&b, p.Fset, n); err != nil {
		return "<?>"
	}
	return strings.Join(strings.Fields(b.String()), "")
}

// keysViaParam: for an index expression m[key] whose key is a parameter of a
// function literal bound to a local of root (set := func(key Name, ...) {
// m[key] = ... }), the constant strings passed for that parameter at the
// calls of the local inside root.  ok is false if the key is not such a
// parameter or some call passes a non-constant.
func keysViaParam(info *types.Info, root ast.Node, ix *ast.IndexExpr) (keys []string, sites []ast.Node, ok bool) {
	kobj := ObjOf(info, ix.Index)
	if kobj == nil {
		return nil, nil, false
	}
	var lit *ast.FuncLit
	pos := -1
	ast.Inspect(root, func(n ast.Node) bool {
		fl, isFL := n.(*ast.FuncLit)
		if !isFL || fl.Type.Params == nil {
			return true
		}
		i := 0
		for _, f := range fl.Type.Params.List {
			if len(f.Names) == 0 {
				i++
			}
			for _, nm := range f.Names {
				if info.ObjectOf(nm) == kobj {
					lit, pos = fl, i
				}
				i++
			}
		}
		return true
	})
	if lit == nil {
		return nil, nil, false
	}
	// the local the literal is bound to
	var fobj types.Object
	ast.Inspect(root, func(n ast.Node) bool {
		switch x := n.(type) {
		case *ast.AssignStmt:
			for i, r := range x.Rhs {
				if ast.Unparen(r) == ast.Expr(lit) && i < len(x.Lhs) && len(x.Lhs) == len(x.Rhs) {
					fobj = ObjOf(info, x.Lhs[i])
				}
			}
		case *ast.ValueSpec:
			for i, r := range x.Values {
				if ast.Unparen(r) == ast.Expr(lit) && i < len(x.Names) {
					fobj = info.ObjectOf(x.Names[i])
				}
			}
		}
		return true
	})
	if fobj == nil {
		return nil, nil, false
	}
	ok = true
	ast.Inspect(root, func(n ast.Node) bool {
		call, isCall := n.(*ast.CallExpr)
		if !isCall || ObjOf(info, call.Fun) != fobj {
			return true
		}
		if pos >= len(call.Args) {
			ok = false
			return true
		}
		if k, isK := StringConst(info, call.Args[pos]); isK {
			keys = append(keys, k)
			sites = append(sites, call)
		} else {
			ok = false
		}
		return true
	})
	// the local must not escape (be used other than as the callee)
	uses, calls := 0, 0
	ast.Inspect(root, func(n ast.Node) bool {
		switch x := n.(type) {
		case *ast.Ident:
			if info.Uses[x] == fobj {
				uses++
			}
		case *ast.CallExpr:
			if ObjOf(info, x.Fun) == fobj {
				calls++
			}
		}
		return true
	})
	if uses != calls {
		ok = false
	}
	return keys, sites, ok && len(keys) > 0
}
