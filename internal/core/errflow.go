package core

import (
	"go/ast"
	"go/token"
	"go/types"
	"sort"
	"strings"

	"golang.org/x/tools/go/packages"
)

// ErrFlow is a function-level analysis of the fate of error values.
//
// A call's error result is "impure" when it may carry a failure of the
// underlying byte source or sink; everything a function in the repository
// returns is impure unless the function is proven pure (all its error
// returns originate from fresh errors / MalformedFileError literals / pure
// callees).
type ErrFlow struct {
	P     *Program
	pure  map[*types.Func]bool
	state map[*types.Func]int // 0 unknown, 1 in progress, 2 done
}

var errType = types.Universe.Lookup("error").Type()

// IsErrorType reports whether t is exactly the error interface.
func IsErrorType(t types.Type) bool { return t != nil && types.Identical(t, errType) }

// external functions whose error results can never be source/sink failures
var pureExternal = map[string]bool{
	"errors.New": true, "fmt.Errorf": true,
	"strconv.Atoi": true, "strconv.ParseInt": true, "strconv.ParseUint": true, "strconv.ParseFloat": true, "strconv.ParseBool": true, "strconv.Unquote": true,
	"crypto/aes.NewCipher": true, "crypto/rc4.NewCipher": true, "crypto/des.NewCipher": true,
	"regexp.Compile": true, "time.Parse": true, "time.ParseInLocation": true,
	"(*text/template.Template).Parse": true,
	"encoding/hex.DecodeString":       true, "encoding/hex.Decode": true,
	"unicode/utf8.DecodeRune":                           true,
	"golang.org/x/text/language.Parse":                  true,
	"(*golang.org/x/text/secure/precis.Profile).String": true,
	"(golang.org/x/text/encoding.Encoder).Bytes":        true, "(*golang.org/x/text/encoding.Decoder).Bytes": true,
	"(*golang.org/x/text/encoding.Encoder).Bytes": true,
	"compress/zlib.NewWriterLevel":                true, "compress/flate.NewWriter": true,
	"(github.com/xdg-go/stringprep.Profile).Prepare": true,
	"(*seehuhn.de/go/membudget.Budget).Charge":       true, // budget exhaustion, not I/O
	"(*io.PipeWriter).Close":                         true, // always nil
	"(*io.PipeWriter).CloseWithError":                true, // always nil
	"(*io.PipeReader).Close":                         true,
	"(*io.PipeReader).CloseWithError":                true,
}

// NewErrFlow creates the analysis.
func NewErrFlow(p *Program) *ErrFlow {
	return &ErrFlow{P: p, pure: map[*types.Func]bool{}, state: map[*types.Func]int{}}
}

func qualified(fn *types.Func) string {
	return fn.FullName()
}

// CallImpure reports whether the error result of the call may carry a
// source/sink failure.
func (ef *ErrFlow) CallImpure(info *types.Info, call *ast.CallExpr) bool {
	fn := Callee(info, call)
	if fn == nil {
		// call through a function value or a conversion
		if tv, ok := info.Types[call.Fun]; ok && tv.IsType() {
			return false
		}
		// a local that only ever holds named functions or method values
		// (checks selected up front): impure iff one of them is
		if cands := ef.P.LocalFuncValues(info, call.Fun); len(cands) > 0 {
			for _, cf := range cands {
				f := ef.P.FuncOf(cf)
				if f == nil || !ef.Pure(f) {
					return true
				}
			}
			return false
		}
		if id, ok := ast.Unparen(call.Fun).(*ast.Ident); ok {
			if _, isBuiltin := info.Uses[id].(*types.Builtin); isBuiltin {
				return false
			}
		}
		return true
	}
	// in-memory sinks and sources cannot fail
	if se, ok := ast.Unparen(call.Fun).(*ast.SelectorExpr); ok {
		if sel := info.Selections[se]; sel != nil && inMemoryType(info.TypeOf(se.X)) {
			return false
		}
	}
	switch qualified(fn) {
	case "fmt.Fprintf", "fmt.Fprint", "fmt.Fprintln", "io.WriteString", "io.ReadFull", "io.ReadAll", "io.Copy", "io.CopyN":
		if len(call.Args) > 0 && inMemoryType(info.TypeOf(call.Args[0])) {
			if qualified(fn) == "io.Copy" || qualified(fn) == "io.CopyN" {
				if len(call.Args) > 1 && inMemoryType(info.TypeOf(call.Args[1])) {
					return false
				}
			} else {
				return false
			}
		}
	}
	if pureExternal[qualified(fn)] {
		// fmt.Errorf with %w of an impure error stays impure; handled by the caller through operand inspection
		return false
	}
	if fn.Pkg() == nil {
		// method of error interface etc.
		return true
	}
	if !strings.HasPrefix(fn.Pkg().Path(), ModulePath) {
		return true
	}
	if f := ef.P.FuncOf(fn); f != nil {
		if latchesError(f) {
			// the callee keeps every error it returns in a field of its
			// receiver (a sticky error): not forwarding the returned copy
			// loses nothing, the next call reports it again
			return false
		}
		return !ef.Pure(f)
	}
	return true
}

// latchesError reports whether every error a method returns is read from a
// field of its own receiver (return n, r.immediateError).
func latchesError(f *Func) bool {
	if f.Decl.Recv == nil || len(f.Decl.Recv.List) != 1 || len(f.Decl.Recv.List[0].Names) != 1 || f.Decl.Body == nil {
		return false
	}
	info := f.Info()
	recv := info.ObjectOf(f.Decl.Recv.List[0].Names[0])
	sig := f.Obj.Type().(*types.Signature)
	errIdx := -1
	for i := 0; i < sig.Results().Len(); i++ {
		if IsErrorType(sig.Results().At(i).Type()) {
			errIdx = i
		}
	}
	if errIdx < 0 || recv == nil {
		return false
	}
	ok, seen := true, 0
	ast.Inspect(f.Decl.Body, func(n ast.Node) bool {
		if _, isLit := n.(*ast.FuncLit); isLit {
			return false
		}
		r, isRet := n.(*ast.ReturnStmt)
		if !isRet {
			return true
		}
		if len(r.Results) != sig.Results().Len() {
			ok = false
			return true
		}
		e := ast.Unparen(r.Results[errIdx])
		if IsNil(info, e) {
			return true
		}
		sel, isSel := e.(*ast.SelectorExpr)
		if !isSel {
			ok = false
			return true
		}
		if id, isID := ast.Unparen(sel.X).(*ast.Ident); !isID || info.ObjectOf(id) != recv {
			ok = false
			return true
		}
		seen++
		return true
	})
	return ok && seen > 0
}

// Pure reports whether no error returned by f can carry a source failure.
func (ef *ErrFlow) Pure(f *Func) bool {
	switch ef.state[f.Obj] {
	case 2:
		return ef.pure[f.Obj]
	case 1:
		return true // optimistic for recursion
	}
	ef.state[f.Obj] = 1
	pure := true
	info := f.Info()
	sig := f.Obj.Type().(*types.Signature)
	errIdx := -1
	for i := 0; i < sig.Results().Len(); i++ {
		if IsErrorType(sig.Results().At(i).Type()) {
			errIdx = i
		}
	}
	if errIdx < 0 {
		ef.state[f.Obj] = 2
		ef.pure[f.Obj] = true
		return true
	}
	// named result?
	var named types.Object
	if f.Decl.Type.Results != nil {
		k := 0
		for _, fld := range f.Decl.Type.Results.List {
			if len(fld.Names) == 0 {
				k++
				continue
			}
			for _, n := range fld.Names {
				if k == errIdx {
					named = info.ObjectOf(n)
				}
				k++
			}
		}
	}
	var impureExpr func(e ast.Expr, depth int) bool
	impureExpr = func(e ast.Expr, depth int) bool {
		e = ast.Unparen(e)
		if IsNil(info, e) || depth == 0 {
			return depth == 0
		}
		switch x := e.(type) {
		case *ast.UnaryExpr:
			if x.Op == token.AND {
				return impureExpr(x.X, depth)
			}
		case *ast.CompositeLit:
			// &MalformedFileError{Err: inner}: class is malformed regardless of inner (R2 looks at inner separately)
			return false
		case *ast.CallExpr:
			fn := Callee(info, x)
			if fn != nil {
				switch qualified(fn) {
				case "fmt.Errorf", "seehuhn.de/go/pdf.Wrap", "errors.Join":
					for _, a := range x.Args {
						if IsErrorType(info.TypeOf(a)) && impureExpr(a, depth-1) {
							return true
						}
					}
					return false
				case "errors.New", "seehuhn.de/go/pdf.Error", "seehuhn.de/go/pdf.Errorf":
					return false
				}
			}
			return ef.CallImpure(info, x)
		case *ast.Ident:
			obj := info.ObjectOf(x)
			if v, ok := obj.(*types.Var); ok {
				if v.Parent() == nil || v.Pkg() == nil {
					return true
				}
				if v.Parent() == v.Pkg().Scope() {
					// package-level sentinel (errors.New) — pure; io.EOF etc. are constants of other packages
					return false
				}
				// local variable: all its definitions
				defs := AssignsTo(info, f.Decl, obj)
				if len(defs) == 0 {
					return true // parameter
				}
				for _, d := range defs {
					switch s := d.(type) {
					case *ast.AssignStmt:
						if len(s.Rhs) == 1 && len(s.Lhs) > 1 {
							if call, ok := ast.Unparen(s.Rhs[0]).(*ast.CallExpr); ok {
								if impureExpr(call, depth-1) {
									return true
								}
								continue
							}
							return true
						}
						for i, l := range s.Lhs {
							if ObjOf(info, l) == obj && i < len(s.Rhs) {
								if impureExpr(s.Rhs[i], depth-1) {
									return true
								}
							}
						}
					case *ast.ValueSpec:
						for _, val := range s.Values {
							if impureExpr(val, depth-1) {
								return true
							}
						}
					default:
						return true
					}
				}
				return false
			}
			return false
		case *ast.SelectorExpr:
			// io.EOF, pkg.ErrSomething: sentinels are pure; fields (s.err) are latches: impure
			if _, isPkg := info.ObjectOf(identOrNil(x.X)).(*types.PkgName); isPkg {
				return false
			}
			return true
		}
		return true
	}
	ast.Inspect(f.Decl.Body, func(n ast.Node) bool {
		if _, ok := n.(*ast.FuncLit); ok {
			return false
		}
		rs, ok := n.(*ast.ReturnStmt)
		if !ok || !pure {
			return pure
		}
		if len(rs.Results) == 0 {
			if named != nil && impureExpr(&ast.Ident{Name: named.Name(), NamePos: rs.Pos()}, 1) {
				// cannot resolve a synthetic ident; fall back to scanning assignments to the named result
			}
			if named != nil {
				for _, d := range AssignsTo(info, f.Decl, named) {
					if as, ok := d.(*ast.AssignStmt); ok {
						for i, l := range as.Lhs {
							if ObjOf(info, l) == named {
								var rhs ast.Expr
								if len(as.Rhs) == len(as.Lhs) {
									rhs = as.Rhs[i]
								} else {
									rhs = as.Rhs[0]
								}
								if impureExpr(rhs, 4) {
									pure = false
								}
							}
						}
					}
				}
			}
			return pure
		}
		if len(rs.Results) == 1 && sig.Results().Len() > 1 {
			// return f(x)
			if call, ok := rs.Results[0].(*ast.CallExpr); ok && ef.CallImpure(info, call) {
				pure = false
			}
			return pure
		}
		if errIdx < len(rs.Results) && impureExpr(rs.Results[errIdx], 4) {
			pure = false
		}
		return pure
	})
	ef.state[f.Obj] = 2
	ef.pure[f.Obj] = pure
	return pure
}

func identOrNil(e ast.Expr) *ast.Ident {
	id, _ := ast.Unparen(e).(*ast.Ident)
	if id == nil {
		return &ast.Ident{Name: "_"}
	}
	return id
}

// ErrFinding is one unjustified sink of a possibly source-carrying error.
type ErrFinding struct {
	Fn     *Func
	Node   ast.Node
	Kind   string // discarded, unchecked, swallowed, blamed, deferred
	Callee string
	Detail string
}

// classification facts ---------------------------------------------------------

// classifies reports whether the atom is a fact that proves the error held
// in obj to be a malformed-content error or an end-of-input marker (so that
// dropping or re-labelling it is justified).
func classifies(info *types.Info, a Atom, obj types.Object) bool {
	if call, ok := a.HoldsCall(info, false, "pdf.IsMalformed"); ok && ObjOf(info, call.Args[0]) == obj {
		return true
	}
	if call, ok := a.HoldsCall(info, true, "pdf.IsReadError"); ok && ObjOf(info, call.Args[0]) == obj {
		return true
	}
	if call, ok := a.HoldsCall(info, false, "errors.As"); ok && ObjOf(info, call.Args[0]) == obj {
		// target must be a *MalformedFileError or parser error variable
		return true
	}
	if call, ok := a.HoldsCall(info, false, "errors.Is"); ok && ObjOf(info, call.Args[0]) == obj {
		return true
	}
	if cmp, ok := a.AsCmp(); ok && cmp.Op == token.EQL && ObjOf(info, cmp.L) == obj {
		if se, ok := ast.Unparen(cmp.R).(*ast.SelectorExpr); ok {
			if _, isPkg := info.ObjectOf(identOrNil(se.X)).(*types.PkgName); isPkg {
				return true // err == io.EOF, err == io.ErrUnexpectedEOF, sentinel
			}
		}
		if id, ok := ast.Unparen(cmp.R).(*ast.Ident); ok {
			if v, ok := info.ObjectOf(id).(*types.Var); ok && v.Pkg() != nil && v.Parent() == v.Pkg().Scope() {
				return true // package-level sentinel
			}
		}
	}
	return false
}

// Analyze inspects every error-producing call in fn.
func (ef *ErrFlow) Analyze(fn *Func) []ErrFinding {
	var out []ErrFinding
	info := fn.Info()
	graphs := []*Graph{fn.Graph()}
	ast.Inspect(fn.Decl.Body, func(n ast.Node) bool {
		if lit, ok := n.(*ast.FuncLit); ok {
			graphs = append(graphs, fn.LitGraph(lit))
		}
		return true
	})
	for _, g := range graphs {
		out = append(out, ef.analyzeGraph(fn, g, info)...)
	}
	sort.Slice(out, func(i, j int) bool { return out[i].Node.Pos() < out[j].Node.Pos() })
	return out
}

func callReturnsError(info *types.Info, call *ast.CallExpr) (int, int) {
	t := info.TypeOf(call)
	if t == nil {
		return -1, 0
	}
	if tup, ok := t.(*types.Tuple); ok {
		for i := tup.Len() - 1; i >= 0; i-- {
			if IsErrorType(tup.At(i).Type()) {
				return i, tup.Len()
			}
		}
		return -1, tup.Len()
	}
	if IsErrorType(t) {
		return 0, 1
	}
	return -1, 1
}

func (ef *ErrFlow) analyzeGraph(fn *Func, g *Graph, info *types.Info) []ErrFinding {
	var out []ErrFinding
	add := func(n ast.Node, kind, callee, detail string) {
		out = append(out, ErrFinding{Fn: fn, Node: n, Kind: kind, Callee: callee, Detail: detail})
	}
	for _, v := range g.Vs {
		if v.AST == nil {
			continue
		}
		switch s := v.AST.(type) {
		case *ast.ExprStmt:
			call, ok := s.X.(*ast.CallExpr)
			if !ok {
				continue
			}
			if idx, _ := callReturnsError(info, call); idx >= 0 && ef.CallImpure(info, call) {
				if se, ok := call.Fun.(*ast.SelectorExpr); ok && se.Sel.Name == "Close" && onlyErrorReturnsFollow(g, info, v) {
					// idiom: clean-up Close on an error path; the primary error is returned
					continue
				}
				add(call, "discarded", CallName(info, call), "the error result is not looked at")
			}
		case *ast.DeferStmt:
			if se, ok := s.Call.Fun.(*ast.SelectorExpr); ok && se.Sel.Name == "Close" {
				// idiom: deferred Close of a read-side stream; a failing Close of a reader cannot lose data
				if t := info.TypeOf(se.X); t != nil && (TypeString(t) == "io.ReadCloser" || TypeString(t) == "io.Closer") {
					continue
				}
			}
			if idx, _ := callReturnsError(info, s.Call); idx >= 0 && ef.CallImpure(info, s.Call) {
				add(s.Call, "deferred", CallName(info, s.Call), "the error result of a deferred call is lost")
			}
		case *ast.GoStmt:
		case *ast.AssignStmt:
			if len(s.Rhs) != 1 {
				continue
			}
			call, ok := ast.Unparen(s.Rhs[0]).(*ast.CallExpr)
			if !ok {
				continue
			}
			// unwrap Optional(f(...)): the inner call's class is filtered, the result is still impure
			idx, n := callReturnsError(info, call)
			if idx < 0 || n != len(s.Lhs) {
				continue
			}
			if !ef.CallImpure(info, call) {
				continue
			}
			l := ast.Unparen(s.Lhs[idx])
			if id, ok := l.(*ast.Ident); ok && id.Name == "_" {
				add(call, "discarded", CallName(info, call), "the error result is assigned to the blank identifier")
				continue
			}
			obj := ObjOf(info, l)
			if obj == nil {
				continue // stored into a field: latched
			}
			if _, isField := l.(*ast.SelectorExpr); isField {
				continue
			}
			out = append(out, ef.fate(fn, g, info, v, call, obj)...)
		}
	}
	return out
}

// uses of an error variable that count as propagation
func propagates(info *types.Info, n ast.Node, obj types.Object) bool {
	ok := false
	ast.Inspect(n, func(m ast.Node) bool {
		switch x := m.(type) {
		case *ast.FuncLit:
			// captured by a closure: conservative, counts as a use
			if Mentions(info, x, obj) {
				ok = true
			}
			return false
		case *ast.ReturnStmt:
			for _, r := range x.Results {
				if Mentions(info, r, obj) {
					ok = true
				}
			}
		case *ast.CallExpr:
			for _, a := range x.Args {
				if Mentions(info, a, obj) {
					// classification predicates do not propagate
					k := CalleeKey(info, x)
					if k == "pdf.IsMalformed" || k == "pdf.IsReadError" || k == "errors.As" || k == "errors.Is" {
						continue
					}
					ok = true
				}
			}
		case *ast.AssignStmt:
			for i, r := range x.Rhs {
				if Mentions(info, r, obj) {
					if i < len(x.Lhs) && ObjOf(info, x.Lhs[i]) == obj {
						continue
					}
					ok = true
				}
			}
		case *ast.SendStmt:
			if Mentions(info, x.Value, obj) {
				ok = true
			}
		case *ast.CompositeLit:
			if Mentions(info, x, obj) {
				ok = true
			}
		}
		return !ok
	})
	return ok
}

func (ef *ErrFlow) fate(fn *Func, g *Graph, info *types.Info, def *V, call *ast.CallExpr, obj types.Object) []ErrFinding {
	var out []ErrFinding
	name := CallName(info, call)
	// vertices that propagate the error, vertices that redefine it
	var uses, redefs []*V
	for _, x := range g.Vs {
		if x == def || x.AST == nil {
			continue
		}
		if x.Cond == nil && propagates(info, x.AST, obj) {
			uses = append(uses, x)
			continue
		}
		if x.Cond != nil && x.Cond.Expr != nil {
			// a condition that passes err to a non-classifying call (shouldExit(err)) propagates it
			if propagates(info, x.Cond.Expr, obj) {
				uses = append(uses, x)
				continue
			}
		}
		for _, d := range AssignsTo(info, x.AST, obj) {
			_ = d
			redefs = append(redefs, x)
			break
		}
	}
	// named result: reaching the exit with the error in the named result is propagation
	isNamedResult := false
	if fn.Decl.Type.Results != nil {
		for _, f := range fn.Decl.Type.Results.List {
			for _, n := range f.Names {
				if info.ObjectOf(n) == obj {
					isNamedResult = true
				}
			}
		}
	}
	// edges on which the error is known nil or classified, or on which another
	// error is already known to be non-nil (precedence idiom:
	// `if err == nil { err = closeErr }`)
	atomOK := func(a Atom) bool {
		if cmp, ok := a.AsCmp(); ok && IsNil(info, cmp.R) && IsErrorType(info.TypeOf(cmp.L)) {
			if cmp.Op == token.EQL && ObjOf(info, cmp.L) == obj {
				return true
			}
			if cmp.Op == token.NEQ && ObjOf(info, cmp.L) != nil && ObjOf(info, cmp.L) != obj {
				return true
			}
		}
		return classifies(info, a, obj)
	}
	var condOK func(e ast.Expr, truth bool) bool
	condOK = func(e ast.Expr, truth bool) bool {
		e = ast.Unparen(e)
		switch x := e.(type) {
		case *ast.UnaryExpr:
			if x.Op == token.NOT {
				return condOK(x.X, !truth)
			}
		case *ast.BinaryExpr:
			switch x.Op {
			case token.LAND:
				if truth {
					return condOK(x.X, true) || condOK(x.Y, true)
				}
				return condOK(x.X, false) && condOK(x.Y, false)
			case token.LOR:
				if truth {
					return condOK(x.X, true) && condOK(x.Y, true)
				}
				return condOK(x.X, false) || condOK(x.Y, false)
			}
		}
		return atomOK(Atom{Expr: e, Neg: !truth})
	}
	var okEdges []EdgeRef
	for _, bv := range g.BranchVertices() {
		if bv.Cond.Expr == nil {
			continue
		}
		if bv.Cond.Tag != nil {
			if atomOK(Atom{Expr: bv.Cond.Expr, Tag: bv.Cond.Tag}) {
				okEdges = append(okEdges, EdgeRef{bv, EdgeTrue})
			}
			continue
		}
		if condOK(bv.Cond.Expr, true) {
			okEdges = append(okEdges, EdgeRef{bv, EdgeTrue})
		}
		if condOK(bv.Cond.Expr, false) {
			okEdges = append(okEdges, EdgeRef{bv, EdgeFalse})
		}
	}
	avoid := AvoidVs(uses...).WithEdges(okEdges...)
	reach := g.ReachFrom(def, false, avoid)
	bad := false
	if reach[g.Exit] && !isNamedResult {
		bad = true
	}
	for _, r := range redefs {
		if reach[r] {
			// overwritten while possibly non-nil
			bad = true
		}
	}
	if bad {
		kind := "unchecked"
		tested := false
		for _, bv := range g.BranchVertices() {
			if bv.Cond.Expr != nil && Mentions(info, bv.Cond.Expr, obj) && g.PathExists(def, bv, nil) {
				tested = true
			}
		}
		if tested {
			kind = "swallowed"
		}
		out = append(out, ErrFinding{Fn: fn, Node: call, Kind: kind, Callee: name,
			Detail: "the error can be non-nil and unclassified on a path that never returns, stores or forwards it"})
	}
	return out
}

// Blamed finds MalformedFileError literals / pdf.Error* calls whose inner
// error may carry a source failure and is not classified on the way.
func (ef *ErrFlow) Blamed(fn *Func) []ErrFinding {
	var out []ErrFinding
	info := fn.Info()
	g := fn.Graph()
	ast.Inspect(fn.Decl.Body, func(n ast.Node) bool {
		cl, ok := n.(*ast.CompositeLit)
		if !ok || !IsNamed(info.TypeOf(cl), "pdf", "MalformedFileError") {
			return true
		}
		for _, el := range cl.Elts {
			kv, ok := el.(*ast.KeyValueExpr)
			if !ok || ExprStr(kv.Key) != "Err" {
				continue
			}
			// any local error variable mentioned in the Err expression
			ast.Inspect(kv.Value, func(m ast.Node) bool {
				id, ok := m.(*ast.Ident)
				if !ok {
					return true
				}
				v, ok := info.ObjectOf(id).(*types.Var)
				if !ok || !IsErrorType(v.Type()) || v.Pkg() == nil || v.Parent() == v.Pkg().Scope() {
					return true
				}
				// is some definition of the variable that reaches this literal impure?
				lit0 := EnclosingFuncLit(fn.Decl, cl)
				g0 := g
				if lit0 != nil {
					g0 = fn.LitGraph(lit0)
				}
				site0 := g0.VertexOf(cl)
				impure := false
				var defVs []*V
				for _, x := range g0.Vs {
					if x.AST != nil && len(AssignsTo(info, x.AST, v)) > 0 {
						if _, isLit := x.AST.(*ast.FuncLit); !isLit {
							defVs = append(defVs, x)
						}
					}
				}
				if len(defVs) == 0 {
					impure = true // parameter or captured variable
				}
				for _, dv := range defVs {
					var others []*V
					for _, o2 := range defVs {
						if o2 != dv {
							others = append(others, o2)
						}
					}
					if site0 != nil && dv != site0 && !g0.ReachFrom(dv, false, AvoidVs(others...))[site0] {
						continue
					}
					if as, ok := dv.AST.(*ast.AssignStmt); ok && len(as.Rhs) == 1 {
						if call, ok := ast.Unparen(as.Rhs[0]).(*ast.CallExpr); ok {
							if ef.CallImpure(info, call) {
								impure = true
							}
							continue
						}
					}
					impure = true
				}
				if !impure {
					return true
				}
				// guarded by a classification of v?
				var site *V
				lit := EnclosingFuncLit(fn.Decl, cl)
				gg := g
				if lit != nil {
					gg = fn.LitGraph(lit)
				}
				site = gg.VertexOf(cl)
				if site != nil && gg.GuardedBy(site, func(a Atom) bool { return classifies(info, a, v) }) {
					return true
				}
				out = append(out, ErrFinding{Fn: fn, Node: cl, Kind: "blamed", Callee: v.Name(),
					Detail: "an error that may come from the byte source is wrapped as MalformedFileError without being classified first"})
				return true
			})
		}
		return true
	})
	return out
}

var _ = packages.NeedName

// inMemoryType reports whether values of the type are in-memory byte
// sinks/sources whose Read/Write cannot report a device failure.
func inMemoryType(t types.Type) bool {
	if t == nil {
		return false
	}
	n := NamedOf(t)
	if n == nil || n.Obj().Pkg() == nil {
		return false
	}
	switch n.Obj().Pkg().Path() + "." + n.Obj().Name() {
	case "hash.Hash", "hash.Hash32", "hash.Hash64", "bytes.Buffer", "strings.Builder", "bytes.Reader", "strings.Reader",
		"crypto/md5.digest", "crypto/sha256.digest", "crypto/sha512.digest", "hash/adler32.digest", "hash/crc32.digest", "text/tabwriter.Writer":
		return true
	}
	return false
}

// onlyErrorReturnsFollow reports whether every path from v to the function
// exit ends in a return statement whose last result is not the nil constant
// (i.e. v lies on an error path).
func onlyErrorReturnsFollow(g *Graph, info *types.Info, v *V) bool {
	reach := g.ReachFrom(v, false, nil)
	n := 0
	for x := range reach {
		if x == g.Exit {
			continue
		}
		rs, ok := x.AST.(*ast.ReturnStmt)
		if !ok {
			continue
		}
		n++
		if len(rs.Results) == 0 {
			return false
		}
		last := rs.Results[len(rs.Results)-1]
		lt := info.TypeOf(last)
		if IsNil(info, last) || lt == nil || !types.AssignableTo(lt, errType) {
			return false
		}
	}
	// the exit must only be reachable through those returns
	if n == 0 {
		return false
	}
	var rets []*V
	for x := range reach {
		if _, ok := x.AST.(*ast.ReturnStmt); ok {
			rets = append(rets, x)
		}
	}
	return !g.ReachFrom(v, false, AvoidVs(rets...))[g.Exit]
}

// LocalFuncValues resolves a call through a local variable of function type:
// when every assignment to the variable (in the function that declares it)
// is a named function or a method value, these are returned; otherwise nil.
func (p *Program) LocalFuncValues(info *types.Info, fun ast.Expr) []*types.Func {
	id, ok := ast.Unparen(fun).(*ast.Ident)
	if !ok {
		return nil
	}
	obj, ok := info.ObjectOf(id).(*types.Var)
	if !ok || obj.IsField() || obj.Pkg() == nil || obj.Parent() == obj.Pkg().Scope() {
		return nil
	}
	if _, isSig := obj.Type().Underlying().(*types.Signature); !isSig {
		return nil
	}
	pkg := p.Pkgs[obj.Pkg().Path()]
	if pkg == nil {
		return nil
	}
	var decl *ast.FuncDecl
	for _, f := range pkg.Syntax {
		if f.Pos() > obj.Pos() || obj.Pos() > f.End() {
			continue
		}
		for _, d := range f.Decls {
			if fd, ok := d.(*ast.FuncDecl); ok && fd.Body != nil && fd.Pos() <= obj.Pos() && obj.Pos() <= fd.End() {
				decl = fd
			}
		}
	}
	if decl == nil {
		return nil
	}
	var out []*types.Func
	okAll := true
	value := func(e ast.Expr) {
		switch x := ast.Unparen(e).(type) {
		case *ast.Ident:
			if f, ok := info.ObjectOf(x).(*types.Func); ok {
				out = append(out, f)
				return
			}
		case *ast.SelectorExpr:
			if f, ok := info.ObjectOf(x.Sel).(*types.Func); ok {
				out = append(out, f)
				return
			}
		}
		okAll = false
	}
	ast.Inspect(decl.Body, func(n ast.Node) bool {
		switch x := n.(type) {
		case *ast.AssignStmt:
			for i, l := range x.Lhs {
				if lid, ok := ast.Unparen(l).(*ast.Ident); ok && info.ObjectOf(lid) == obj {
					if len(x.Lhs) == len(x.Rhs) {
						value(x.Rhs[i])
					} else {
						okAll = false
					}
				}
			}
		case *ast.ValueSpec:
			for i, nm := range x.Names {
				if info.ObjectOf(nm) == obj {
					if len(x.Values) == len(x.Names) {
						value(x.Values[i])
					} else if len(x.Values) != 0 {
						okAll = false
					}
				}
			}
		case *ast.UnaryExpr:
			if x.Op == token.AND {
				if lid, ok := ast.Unparen(x.X).(*ast.Ident); ok && info.ObjectOf(lid) == obj {
					okAll = false
				}
			}
		}
		return true
	})
	if !okAll {
		return nil
	}
	return out
}
