package core

import (
	"fmt"
	"go/token"
	"go/types"
	"os"
	"sort"
	"strings"

	"golang.org/x/tools/go/ssa"
	"golang.org/x/tools/go/ssa/ssautil"
)

// MutWitness describes one write through memory reachable from a seed.
type MutWitness struct {
	Fn    string
	Pos   token.Pos
	What  string
	Chain []string
}

// MutAnalysis is an interprocedural may-write-through-argument analysis.
//
// For a function and a seed (parameter or free variable) it computes the
// set of SSA values that may alias memory reachable from the seed and
// reports every instruction that writes through such a value, following
// static calls (with summaries) and interface calls whose receiver type is
// declared in an allowed package.
type MutAnalysis struct {
	P        *Program
	S        *SSAProgram
	memo     map[string][]MutWitness
	busy     map[string]bool
	impls    map[string][]*ssa.Function // interface method id -> implementations
	ImplPkgs map[string]bool            // packages whose types are considered for interface dispatch
	// ExemptRecv lists named types (short pkg.Name) whose own state may be
	// written by design; flows into values of these types are cut.
	ExemptTypes map[string]string
	Visited     map[string]bool
	// AppendIsWrite reports append(x, elems...) with x reachable from the seed
	// as a write: when x has spare capacity the elements are stored into the
	// shared backing array (a data race between concurrent readers, and a
	// corruption of the next reader's input).
	AppendIsWrite bool

	srcMemo  map[*ssa.Function]map[int]bool
	srcKnown map[*ssa.Function]bool
	srcBusy  map[*ssa.Function]bool

	allFns     []*ssa.Function
	freshMemo  map[string]bool
	freshKnown map[string]bool
	elemMemo   map[string]bool
}

// NewMutAnalysis prepares the analysis.
func NewMutAnalysis(p *Program) *MutAnalysis {
	return &MutAnalysis{P: p, S: p.SSA(), memo: map[string][]MutWitness{}, busy: map[string]bool{},
		impls: map[string][]*ssa.Function{}, ImplPkgs: map[string]bool{}, ExemptTypes: map[string]string{}, Visited: map[string]bool{}}
}

func refLike(t types.Type) bool {
	switch u := t.Underlying().(type) {
	case *types.Pointer, *types.Slice, *types.Map, *types.Interface, *types.Chan, *types.Signature:
		return true
	case *types.Struct:
		for i := 0; i < u.NumFields(); i++ {
			if refLike(u.Field(i).Type()) {
				return true
			}
		}
	case *types.Array:
		return refLike(u.Elem())
	case *types.Tuple:
		for i := 0; i < u.Len(); i++ {
			if refLike(u.At(i).Type()) {
				return true
			}
		}
	}
	return false
}

func (m *MutAnalysis) exempt(t types.Type) bool {
	n := NamedOf(t)
	if n == nil || n.Obj().Pkg() == nil {
		return false
	}
	_, ok := m.ExemptTypes[ShortPkg(n.Obj().Pkg().Path())+"."+n.Obj().Name()]
	return ok
}

// external mutators: callee full name -> indices of arguments written
// (for methods index 0 is the receiver, so the first explicit argument is 1).
var extMutators = map[string][]int{
	"(crypto/cipher.Stream).XORKeyStream":      {1},
	"(*crypto/rc4.Cipher).XORKeyStream":        {1},
	"(crypto/cipher.BlockMode).CryptBlocks":    {1},
	"(crypto/cipher.Block).Encrypt":            {1},
	"(crypto/cipher.Block).Decrypt":            {1},
	"(io.Reader).Read":                         {1},
	"(io.ReaderAt).ReadAt":                     {1},
	"io.ReadFull":                              {1},
	"io.ReadAtLeast":                           {1},
	"crypto/rand.Read":                         {0},
	"sort.Slice":                               {0},
	"sort.SliceStable":                         {0},
	"sort.Sort":                                {0},
	"sort.Stable":                              {0},
	"sort.Strings":                             {0},
	"sort.Ints":                                {0},
	"slices.Sort":                              {0},
	"slices.SortFunc":                          {0},
	"slices.SortStableFunc":                    {0},
	"slices.Reverse":                           {0},
	"(encoding/binary.littleEndian).PutUint16": {1},
	"(encoding/binary.littleEndian).PutUint32": {1},
	"(encoding/binary.littleEndian).PutUint64": {1},
	"(encoding/binary.bigEndian).PutUint16":    {1},
	"(encoding/binary.bigEndian).PutUint32":    {1},
	"(encoding/binary.bigEndian).PutUint64":    {1},
	"maps.Copy":                                {0},
	"maps.DeleteFunc":                          {0},
}

// cloners return fresh top-level containers (contents may still alias).
var shallowCloners = map[string]bool{"maps.Clone": true, "slices.Clone": true}
var deepFresh = map[string]bool{"bytes.Clone": true, "strings.Clone": true, "bytes.Repeat": true, "strings.Repeat": true}

func fullName(fn *ssa.Function) string {
	if fn == nil {
		return ""
	}
	if fn.Origin() != nil {
		fn = fn.Origin()
	}
	return fn.String()
}

func (m *MutAnalysis) inModule(fn *ssa.Function) bool {
	return fn != nil && fn.Pkg != nil && strings.HasPrefix(fn.Pkg.Pkg.Path(), ModulePath) && len(fn.Blocks) > 0
}

// implementations of an interface method among the allowed packages.
func (m *MutAnalysis) implementations(recv types.Type, method *types.Func) []*ssa.Function {
	key := method.FullName()
	if v, ok := m.impls[key]; ok {
		return v
	}
	var out []*ssa.Function
	iface, _ := recv.Underlying().(*types.Interface)
	for _, pkg := range m.S.Pkgs {
		if pkg == nil || !m.ImplPkgs[pkg.Pkg.Path()] {
			continue
		}
		for _, mem := range pkg.Members {
			tn, ok := mem.(*ssa.Type)
			if !ok {
				continue
			}
			for _, t := range []types.Type{tn.Type(), types.NewPointer(tn.Type())} {
				if _, isIface := t.Underlying().(*types.Interface); isIface {
					continue
				}
				if iface != nil && !types.Implements(t, iface) {
					continue
				}
				sel := m.S.Prog.MethodSets.MethodSet(t).Lookup(method.Pkg(), method.Name())
				if sel == nil {
					continue
				}
				if f := m.S.Prog.MethodValue(sel); f != nil {
					out = append(out, f)
				}
			}
		}
	}
	sort.Slice(out, func(i, j int) bool { return out[i].String() < out[j].String() })
	// dedupe
	var ded []*ssa.Function
	for i, f := range out {
		if i == 0 || out[i-1] != f {
			ded = append(ded, f)
		}
	}
	m.impls[key] = ded
	return ded
}

// Mutations returns the writes through memory reachable from the given
// seed values of fn (parameters or free variables).
func (m *MutAnalysis) Mutations(fn *ssa.Function, seeds []ssa.Value, chain []string) []MutWitness {
	if fn == nil || len(fn.Blocks) == 0 {
		return nil
	}
	var ids []string
	for _, s := range seeds {
		ids = append(ids, s.Name())
	}
	sort.Strings(ids)
	key := fn.String() + "|" + strings.Join(ids, ",")
	if w, ok := m.memo[key]; ok {
		return w
	}
	if m.busy[key] || len(chain) > 12 {
		return nil
	}
	m.busy[key] = true
	defer delete(m.busy, key)
	m.Visited[fn.String()] = true
	chain = append(append([]string{}, chain...), fn.String())

	derived := map[ssa.Value]bool{}
	shallow := map[ssa.Value]bool{}
	// nested: fresh containers whose elements are fresh containers of derived
	// contents (a new slice of newly made filters): an element loaded from one
	// is shallow, not derived.  A value that is also shallow or derived counts as that.
	nested := map[ssa.Value]bool{}
	isN := func(v ssa.Value) bool { return nested[v] && !shallow[v] && !derived[v] }
	cells := map[ssa.Value]bool{}        // local cells holding derived values
	shallowCells := map[ssa.Value]bool{} // local cells holding only fresh containers of derived contents
	for _, s := range seeds {
		if !m.exempt(s.Type()) {
			derived[s] = true
		}
	}
	isD := func(v ssa.Value) bool { return derived[v] }
	mark := func(v ssa.Value, set map[ssa.Value]bool) bool {
		if v == nil || set[v] {
			return false
		}
		if set == nil {
			return false
		}
		if m.exempt(v.Type()) {
			return false
		}
		set[v] = true
		if dbg := os.Getenv("PDFVERIF_DEBUG_MUT"); dbg != "" && strings.Contains(fn.String(), dbg) {
			kind := "shallow"
			if fmt.Sprintf("%p", set) == fmt.Sprintf("%p", derived) {
				kind = "derived"
			}
			fmt.Fprintf(os.Stderr, "MUT %s: %s %s = %v\n", fn.Name(), kind, v.Name(), v)
		}
		return true
	}
	rootCell := func(v ssa.Value) ssa.Value {
		for {
			switch x := v.(type) {
			case *ssa.FieldAddr:
				v = x.X
			case *ssa.IndexAddr:
				v = x.X
			default:
				return v
			}
		}
	}
	changed := true
	for changed {
		changed = false
		for _, b := range fn.Blocks {
			for _, ins := range b.Instrs {
				switch x := ins.(type) {
				case *ssa.Slice:
					if isD(x.X) || cells[rootCell(x.X)] {
						changed = mark(x, derived) || changed
					}
					if shallow[x.X] {
						changed = mark(x, shallow) || changed
					}
					if isN(x.X) {
						changed = mark(x, nested) || changed
					}
				case *ssa.ChangeType:
					if isD(x.X) {
						changed = mark(x, derived) || changed
					}
					if shallow[x.X] {
						changed = mark(x, shallow) || changed
					}
					if isN(x.X) {
						changed = mark(x, nested) || changed
					}
				case *ssa.Convert:
					// conversions between slice types alias; string<->[]byte copy
					_, toSlice := x.Type().Underlying().(*types.Slice)
					_, fromSlice := x.X.Type().Underlying().(*types.Slice)
					if toSlice && fromSlice && isD(x.X) {
						changed = mark(x, derived) || changed
					}
				case *ssa.MakeInterface:
					if isD(x.X) {
						changed = mark(x, derived) || changed
					}
					if shallow[x.X] || nested[x.X] {
						changed = mark(x, shallow) || changed
					}
				case *ssa.ChangeInterface:
					if isD(x.X) {
						changed = mark(x, derived) || changed
					}
				case *ssa.TypeAssert:
					if isD(x.X) {
						changed = mark(x, derived) || changed
					}
					if shallow[x.X] {
						changed = mark(x, shallow) || changed
					}
				case *ssa.Extract:
					if isD(x.Tuple) && refLike(x.Type()) {
						changed = mark(x, derived) || changed
					}
					if shallow[x.Tuple] && refLike(x.Type()) {
						changed = mark(x, shallow) || changed
					}
					if isN(x.Tuple) && refLike(x.Type()) {
						changed = mark(x, nested) || changed
					}
				case *ssa.IndexAddr:
					if isD(x.X) {
						changed = mark(x, derived) || changed
					}
				case *ssa.FieldAddr:
					if isD(x.X) {
						changed = mark(x, derived) || changed
					}
				case *ssa.Index:
					if (isD(x.X) || shallow[x.X]) && refLike(x.Type()) {
						changed = mark(x, derived) || changed
					}
				case *ssa.Field:
					if isD(x.X) && refLike(x.Type()) {
						changed = mark(x, derived) || changed
					}
				case *ssa.Lookup:
					if (isD(x.X) || shallow[x.X]) && refLike(x.Type()) {
						changed = mark(x, derived) || changed
					}
				case *ssa.UnOp:
					if x.Op == token.MUL {
						// a field of a struct allocated here that, anywhere in the module, is
						// only ever given storage created on the spot (make, a literal, nil)
						// does not hold caller memory, whatever the struct's other fields hold
						if fa, isFA := x.X.(*ssa.FieldAddr); isFA && !isD(x.X) && !isD(fa.X) {
							if _, isAlloc := rootCell(x.X).(*ssa.Alloc); isAlloc && m.fieldOnlyFresh(fa) {
								continue
							}
						}
						if (isD(x.X) || cells[rootCell(x.X)]) && refLike(x.Type()) {
							changed = mark(x, derived) || changed
						}
						if shallow[x.X] && refLike(x.Type()) {
							changed = mark(x, derived) || changed
						}
						// an element of a fresh container of derived contents is derived
						if ia, isIA := x.X.(*ssa.IndexAddr); isIA && shallow[ia.X] && refLike(x.Type()) {
							changed = mark(x, derived) || changed
						}
						if ia, isIA := x.X.(*ssa.IndexAddr); isIA && isN(ia.X) && refLike(x.Type()) {
							changed = mark(x, shallow) || changed
						}
						if shallowCells[rootCell(x.X)] && !cells[rootCell(x.X)] && refLike(x.Type()) {
							changed = mark(x, shallow) || changed
						}
					}
				case *ssa.Phi:
					anyN, allN := false, true
					for _, e := range x.Edges {
						if isD(e) {
							changed = mark(x, derived) || changed
						}
						if shallow[e] {
							changed = mark(x, shallow) || changed
						}
						if nested[e] {
							anyN = true
						} else if cst, isC := e.(*ssa.Const); !(isC && cst.IsNil()) && e != ssa.Value(x) {
							allN = false
						}
					}
					if anyN && allN {
						changed = mark(x, nested) || changed
					} else if anyN {
						// joined with a container the analysis knows nothing about: fall back to the coarser class
						changed = mark(x, shallow) || changed
					}
				case *ssa.Range:
					if isD(x.X) || shallow[x.X] {
						changed = mark(x, derived) || changed
					}
				case *ssa.Next:
					if isD(x.Iter) {
						changed = mark(x, derived) || changed
					}
				case *ssa.Store:
					// a derived value stored into a local cell makes loads from that cell derived;
					// a fresh container with derived contents makes them shallow
					if isD(x.Val) {
						if _, isAlloc := rootCell(x.Addr).(*ssa.Alloc); isAlloc {
							if !cells[x.Addr] {
								cells[x.Addr] = true
								cells[rootCell(x.Addr)] = true
								changed = true
							}
						}
					} else if shallow[x.Val] || nested[x.Val] {
						if _, isAlloc := rootCell(x.Addr).(*ssa.Alloc); isAlloc {
							if !shallowCells[x.Addr] {
								shallowCells[x.Addr] = true
								shallowCells[rootCell(x.Addr)] = true
								changed = true
							}
						}
					}
				case *ssa.Call:
					com := x.Common()
					if com.IsInvoke() {
						// result of a method on a derived receiver may alias it
						if isD(com.Value) && refLike(x.Type()) {
							changed = mark(x, derived) || changed
						}
						continue
					}
					if b, ok := com.Value.(*ssa.Builtin); ok {
						if b.Name() == "append" && len(com.Args) > 0 && isN(com.Args[0]) {
							// elements appended to it: fresh ones keep the class, anything else makes it coarser
							keep := len(com.Args) == 1
							if len(com.Args) == 2 {
								if sl, isSl := com.Args[1].(*ssa.Slice); isSl {
									if a, isA := sl.X.(*ssa.Alloc); isA && !cells[a] {
										keep = true // new elements that are not derived (shallow ones included)
									}
								}
								if isN(com.Args[1]) {
									keep = true
								}
							}
							if keep {
								changed = mark(x, nested) || changed
							} else {
								changed = mark(x, shallow) || changed
							}
						}
						if b.Name() == "append" && len(com.Args) > 0 && (isD(com.Args[0]) || shallow[com.Args[0]]) {
							// the result may share the backing array
							if isD(com.Args[0]) {
								changed = mark(x, derived) || changed
							} else {
								changed = mark(x, shallow) || changed
							}
						}
						if b.Name() == "append" && len(com.Args) == 2 && isD(com.Args[1]) && refLike(x.Type().Underlying().(*types.Slice).Elem()) {
							// appended elements keep referencing caller memory
							changed = mark(x, shallow) || changed
						}
						continue
					}
					callee := com.StaticCallee()
					name := fullName(callee)
					if callee == nil && refLike(x.Type()) {
						// an entry of a package-level table of functions
						if cs := m.tableCallees(com.Value); len(cs) > 0 {
							allFresh := true
							for _, c := range cs {
								if !m.returnsFresh(c) {
									allFresh = false
								}
							}
							dArg := false
							for _, a := range com.Args {
								if isD(a) || shallow[a] || nested[a] {
									dArg = true
								}
							}
							if allFresh {
								if dArg {
									changed = mark(x, shallow) || changed
								}
								continue
							}
						}
					}
					anyD := false
					for _, a := range com.Args {
						if isD(a) || shallow[a] || nested[a] {
							anyD = true
						}
					}
					if !anyD {
						continue
					}
					switch {
					case deepFresh[name]:
					case shallowCloners[name]:
						changed = mark(x, shallow) || changed
					case callee != nil && !m.inModule(callee):
						// library function: results are fresh unless it is a known view
						if name == "bytes.TrimSpace" || name == "bytes.TrimRight" || name == "bytes.TrimLeft" || name == "bytes.Trim" || name == "bytes.TrimPrefix" || name == "bytes.TrimSuffix" {
							changed = mark(x, derived) || changed
						}
					default:
						if refLike(x.Type()) {
							if m.returnsFresh(callee) && m.elemsFresh(callee) {
								// a fresh slice of fresh containers
								changed = mark(x, nested) || changed
							} else if m.returnsFresh(callee) {
								// fresh container(s); contents may still reference caller memory
								changed = mark(x, shallow) || changed
							} else if src, known := m.resultSources(callee); known {
								// the result's top-level storage comes only from the listed parameters
								// (e.g. an accumulator slice that is appended to and returned)
								fromD, fromS := false, false
								for i, a := range com.Args {
									if src[i] && isD(a) {
										fromD = true
									}
									if src[i] && (shallow[a] || nested[a]) {
										fromS = true
									}
								}
								switch {
								case fromD:
									changed = mark(x, derived) || changed
								default:
									_ = fromS
									changed = mark(x, shallow) || changed
								}
							} else {
								changed = mark(x, derived) || changed
							}
						}
					}
				case *ssa.MakeClosure:
					// handled at call sites of the closure (conservatively below)
				}
			}
		}
	}

	var out []MutWitness
	add := func(pos token.Pos, what string, sub []MutWitness) {
		if sub != nil {
			out = append(out, sub...)
			return
		}
		out = append(out, MutWitness{Fn: fn.String(), Pos: pos, What: what, Chain: chain})
	}
	for _, b := range fn.Blocks {
		for _, ins := range b.Instrs {
			switch x := ins.(type) {
			case *ssa.Store:
				if isD(x.Addr) {
					add(x.Pos(), "store through "+x.Addr.Name()+" ("+TypeString(x.Addr.Type())+")", nil)
				}
			case *ssa.MapUpdate:
				if isD(x.Map) {
					add(x.Pos(), "map update of "+x.Map.Name()+" ("+TypeString(x.Map.Type())+")", nil)
				}
			case ssa.CallInstruction:
				com := x.Common()
				pos := x.Pos()
				if b, ok := com.Value.(*ssa.Builtin); ok && m.AppendIsWrite && b.Name() == "append" && len(com.Args) >= 2 && isD(com.Args[0]) && !m.exempt(com.Args[0].Type()) {
					add(pos, "append to "+com.Args[0].Name()+" ("+TypeString(com.Args[0].Type())+"): writes into the shared backing array when it has spare capacity", nil)
				}
				if com.IsInvoke() {
					// module interfaces only
					mpk := com.Method.Pkg()
					if mpk == nil || !strings.HasPrefix(mpk.Path(), ModulePath) {
						if com.Method.FullName() == "(io.Reader).Read" || com.Method.FullName() == "(io.ReaderAt).ReadAt" {
							if len(com.Args) > 0 && isD(com.Args[0]) {
								add(pos, "Read into caller memory", nil)
							}
						} else if idx, known := extMutators[com.Method.FullName()]; known {
							// an interface method of the standard library that writes an
							// argument (cipher.BlockMode.CryptBlocks(dst, src)): the table
							// counts the receiver as argument 0
							for _, i := range idx {
								if i >= 1 && i-1 < len(com.Args) && isD(com.Args[i-1]) {
									add(pos, fmt.Sprintf("%s writes its argument %d", com.Method.FullName(), i), nil)
								}
							}
						}
						continue
					}
					recvD := isD(com.Value)
					var argD []int
					for i, a := range com.Args {
						if isD(a) {
							argD = append(argD, i)
						}
					}
					if !recvD && len(argD) == 0 {
						continue
					}
					for _, impl := range m.implementations(com.Value.Type(), com.Method) {
						var seeds []ssa.Value
						if recvD && len(impl.Params) > 0 {
							seeds = append(seeds, impl.Params[0])
						}
						for _, i := range argD {
							if i+1 < len(impl.Params) {
								seeds = append(seeds, impl.Params[i+1])
							}
						}
						if len(seeds) > 0 {
							if sub := m.Mutations(impl, seeds, chain); len(sub) > 0 {
								add(pos, "", sub)
							}
						}
					}
					continue
				}
				if b, ok := com.Value.(*ssa.Builtin); ok {
					switch b.Name() {
					case "copy":
						if isD(com.Args[0]) {
							add(pos, "copy into caller memory", nil)
						}
					case "delete", "clear":
						if isD(com.Args[0]) {
							add(pos, b.Name()+" on caller memory", nil)
						}
					}
					continue
				}
				callee := com.StaticCallee()
				if callee == nil {
					// an entry of a package-level table of functions: every entry may be the callee
					for _, tc := range m.tableCallees(com.Value) {
						var seeds []ssa.Value
						for i, a := range com.Args {
							if isD(a) && i < len(tc.Params) {
								seeds = append(seeds, tc.Params[i])
							}
						}
						if len(seeds) > 0 {
							if sub := m.Mutations(tc, seeds, chain); len(sub) > 0 {
								add(pos, "", sub)
							}
						}
					}
					// call of a function value: closures created in this function
					if mc, ok := com.Value.(*ssa.MakeClosure); ok {
						callee = mc.Fn.(*ssa.Function)
						var seeds []ssa.Value
						for i, bnd := range mc.Bindings {
							if isD(bnd) || cells[bnd] {
								seeds = append(seeds, callee.FreeVars[i])
							}
						}
						for i, a := range com.Args {
							if isD(a) && i < len(callee.Params) {
								seeds = append(seeds, callee.Params[i])
							}
						}
						if len(seeds) > 0 {
							if sub := m.Mutations(callee, seeds, chain); len(sub) > 0 {
								add(pos, "", sub)
							}
						}
					}
					continue
				}
				name := fullName(callee)
				if idx, ok := extMutators[name]; ok {
					for _, i := range idx {
						if i < len(com.Args) && isD(com.Args[i]) {
							add(pos, fmt.Sprintf("%s writes its argument %d", name, i), nil)
						}
					}
					continue
				}
				if !m.inModule(callee) {
					continue
				}
				var seeds []ssa.Value
				for i, a := range com.Args {
					if isD(a) && i < len(callee.Params) {
						seeds = append(seeds, callee.Params[i])
					}
				}
				// closures defined here that capture derived cells
				if len(seeds) > 0 {
					if sub := m.Mutations(callee, seeds, chain); len(sub) > 0 {
						add(pos, "", sub)
					}
				}
			}
		}
	}
	// closures that capture derived values and are called later / elsewhere
	for _, b := range fn.Blocks {
		for _, ins := range b.Instrs {
			mc, ok := ins.(*ssa.MakeClosure)
			if !ok {
				continue
			}
			cf := mc.Fn.(*ssa.Function)
			var seeds []ssa.Value
			for i, bnd := range mc.Bindings {
				if isD(bnd) {
					seeds = append(seeds, cf.FreeVars[i])
				} else if cells[bnd] {
					// the closure captures the cell; loads from the free variable are derived
					seeds = append(seeds, cf.FreeVars[i])
				}
			}
			if len(seeds) > 0 {
				if sub := m.mutationsViaCells(cf, seeds, chain); len(sub) > 0 {
					out = append(out, sub...)
				}
			}
		}
	}
	m.memo[key] = out
	return out
}

// mutationsViaCells analyses a closure whose free variables are cells
// (pointers to captured locals) holding derived values: the loads from the
// free variables are the seeds.
func (m *MutAnalysis) mutationsViaCells(fn *ssa.Function, cellSeeds []ssa.Value, chain []string) []MutWitness {
	var seeds []ssa.Value
	isCell := map[ssa.Value]bool{}
	for _, c := range cellSeeds {
		isCell[c] = true
	}
	for _, b := range fn.Blocks {
		for _, ins := range b.Instrs {
			if u, ok := ins.(*ssa.UnOp); ok && u.Op == token.MUL && isCell[u.X] && refLike(u.Type()) {
				seeds = append(seeds, u)
			}
		}
	}
	if len(seeds) == 0 {
		return nil
	}
	return m.Mutations(fn, seeds, chain)
}

// ReturnsFresh is returnsFresh for rules.
func (m *MutAnalysis) ReturnsFresh(fn *ssa.Function) bool { return m.returnsFresh(fn) }

// returnsFresh reports whether every reference-like result of fn is, on
// every return, a container allocated inside fn (make, composite literal,
// append to such) or nil.
func (m *MutAnalysis) returnsFresh(fn *ssa.Function) bool {
	if fn == nil || len(fn.Blocks) == 0 {
		return false
	}
	fresh := func(v ssa.Value, seen map[ssa.Value]bool) bool { return m.freshValue(fn, v, seen) }
	for _, b := range fn.Blocks {
		for _, ins := range b.Instrs {
			ret, ok := ins.(*ssa.Return)
			if !ok {
				continue
			}
			for _, r := range ret.Results {
				if !refLike(r.Type()) {
					continue
				}
				if types.Identical(r.Type(), types.Universe.Lookup("error").Type()) {
					continue
				}
				if !fresh(r, map[ssa.Value]bool{}) {
					if os.Getenv("PDFVERIF_DEBUG_MUT") != "" {
						fmt.Fprintf(os.Stderr, "MUT returnsFresh(%s) fails on %s = %v (%T)\n", fn.Name(), r.Name(), r, r)
					}
					return false
				}
			}
		}
	}
	return true
}

// resultSources computes, for a module function, the set of parameter
// indices (receiver = 0) whose storage the results may be (slices of, or
// appends to).  known is false when a result comes from anything else than
// parameters, fresh allocations and calls with known sources.  Recursion is
// solved as a least fixed point.
func (m *MutAnalysis) resultSources(fn *ssa.Function) (map[int]bool, bool) {
	if fn == nil || len(fn.Blocks) == 0 {
		return nil, false
	}
	if m.srcMemo == nil {
		m.srcMemo = map[*ssa.Function]map[int]bool{}
		m.srcKnown = map[*ssa.Function]bool{}
		m.srcBusy = map[*ssa.Function]bool{}
	}
	if v, ok := m.srcMemo[fn]; ok && !m.srcBusy[fn] {
		return v, m.srcKnown[fn]
	}
	if m.srcBusy[fn] {
		return m.srcMemo[fn], true // current estimate (optimistic)
	}
	m.srcBusy[fn] = true
	m.srcMemo[fn] = map[int]bool{}
	known := true
	paramIdx := map[*ssa.Parameter]int{}
	for i, p := range fn.Params {
		paramIdx[p] = i
	}
	for iter := 0; iter < 6; iter++ {
		est := map[int]bool{}
		for k := range m.srcMemo[fn] {
			est[k] = true
		}
		known = true
		var walk func(v ssa.Value, seen map[ssa.Value]bool)
		walk = func(v ssa.Value, seen map[ssa.Value]bool) {
			if seen[v] {
				return
			}
			seen[v] = true
			if !refLike(v.Type()) {
				return
			}
			switch x := v.(type) {
			case *ssa.Const, *ssa.MakeMap, *ssa.MakeSlice, *ssa.Alloc, *ssa.MakeChan, *ssa.MakeClosure:
			case *ssa.Parameter:
				est[paramIdx[x]] = true
			case *ssa.MakeInterface:
				walk(x.X, seen)
			case *ssa.ChangeType:
				walk(x.X, seen)
			case *ssa.Convert:
				walk(x.X, seen)
			case *ssa.Slice:
				walk(x.X, seen)
			case *ssa.Phi:
				for _, e := range x.Edges {
					walk(e, seen)
				}
			case *ssa.Call:
				com := x.Common()
				if b, ok := com.Value.(*ssa.Builtin); ok {
					if b.Name() == "append" {
						walk(com.Args[0], seen)
						return
					}
					known = false
					return
				}
				c := com.StaticCallee()
				if c == nil || !m.inModule(c) {
					if c != nil && (shallowCloners[fullName(c)] || deepFresh[fullName(c)]) {
						return
					}
					known = false
					return
				}
				if m.returnsFresh(c) {
					return
				}
				src, ok := m.resultSources(c)
				if !ok {
					known = false
					return
				}
				for i, a := range com.Args {
					if src[i] {
						walk(a, seen)
					}
				}
			default:
				known = false
			}
		}
		for _, b := range fn.Blocks {
			for _, ins := range b.Instrs {
				if r, ok := ins.(*ssa.Return); ok {
					for _, res := range r.Results {
						walk(res, map[ssa.Value]bool{})
					}
				}
			}
		}
		stable := len(est) == len(m.srcMemo[fn])
		m.srcMemo[fn] = est
		if stable || !known {
			break
		}
	}
	m.srcKnown[fn] = known
	delete(m.srcBusy, fn)
	return m.srcMemo[fn], known
}

// fieldOnlyFresh reports whether the struct field addressed by fa (of an
// unexported or exported struct type declared in the module) is, in every
// function of the module, only ever assigned storage created at the point of
// the assignment: make(...), a composite literal, new, or nil.  Such a field
// cannot refer to memory of a caller.  Whole-struct stores copy fields
// between values of the same type and do not change the answer.
func (m *MutAnalysis) fieldOnlyFresh(fa *ssa.FieldAddr) bool {
	pt, ok := fa.X.Type().Underlying().(*types.Pointer)
	if !ok {
		return false
	}
	named := NamedOf(pt.Elem())
	st, isStruct := pt.Elem().Underlying().(*types.Struct)
	if named == nil || !isStruct || named.Obj().Pkg() == nil || !strings.HasPrefix(named.Obj().Pkg().Path(), ModulePath) {
		return false
	}
	if fa.Field >= st.NumFields() {
		return false
	}
	fname := st.Field(fa.Field).Name()
	key := named.Obj().Pkg().Path() + "." + named.Obj().Name() + "." + fname
	if m.freshKnown == nil {
		m.freshKnown = map[string]bool{}
		m.freshMemo = map[string]bool{}
	}
	if m.freshKnown[key] {
		return m.freshMemo[key]
	}
	m.freshKnown[key] = true
	if m.allFns == nil {
		for f := range ssautil.AllFunctions(m.S.Prog) {
			m.allFns = append(m.allFns, f)
		}
	}
	sameType := func(t types.Type) bool {
		p, ok := t.Underlying().(*types.Pointer)
		if !ok {
			return false
		}
		n := NamedOf(p.Elem())
		return n != nil && n.Obj().Pkg() == named.Obj().Pkg() && n.Obj().Name() == named.Obj().Name()
	}
	var fresh func(v ssa.Value, depth int) bool
	fresh = func(v ssa.Value, depth int) bool {
		if depth > 4 {
			return false
		}
		switch x := v.(type) {
		case *ssa.MakeMap, *ssa.MakeSlice, *ssa.MakeChan, *ssa.Alloc:
			return true
		case *ssa.Const:
			return x.IsNil()
		case *ssa.MakeInterface:
			return fresh(x.X, depth+1)
		case *ssa.ChangeType:
			return fresh(x.X, depth+1)
		case *ssa.Slice:
			return fresh(x.X, depth+1)
		case *ssa.Phi:
			for _, e := range x.Edges {
				if !fresh(e, depth+1) {
					return false
				}
			}
			return true
		}
		return false
	}
	res := true
	seenStore := false
	for _, f := range m.allFns {
		if f.Pkg == nil || f.Pkg.Pkg == nil {
			if f.Parent() == nil || f.Parent().Pkg == nil {
				// instantiations of generic functions have no package of their own: use the origin's
				if f.Origin() == nil || f.Origin().Pkg == nil || f.Origin().Pkg.Pkg != named.Obj().Pkg() {
					continue
				}
			}
		}
		for _, b := range f.Blocks {
			for _, ins := range b.Instrs {
				st, ok := ins.(*ssa.Store)
				if !ok {
					continue
				}
				fa2, ok := st.Addr.(*ssa.FieldAddr)
				if !ok || !sameType(fa2.X.Type()) {
					continue
				}
				s2, ok := fa2.X.Type().Underlying().(*types.Pointer).Elem().Underlying().(*types.Struct)
				if !ok || fa2.Field >= s2.NumFields() || s2.Field(fa2.Field).Name() != fname {
					continue
				}
				seenStore = true
				if !fresh(st.Val, 0) {
					res = false
				}
			}
		}
	}
	m.freshMemo[key] = res && seenStore
	return res && seenStore
}

// freshValue: v (a value of fn) is storage allocated inside fn or by a
// function of the module that returns such storage, or nil.
func (m *MutAnalysis) freshValue(fn *ssa.Function, v ssa.Value, seen map[ssa.Value]bool) bool {
	fresh := func(v ssa.Value, seen map[ssa.Value]bool) bool { return m.freshValue(fn, v, seen) }
	{
		if seen[v] {
			return true
		}
		seen[v] = true
		switch x := v.(type) {
		case *ssa.Const:
			return true
		case *ssa.MakeMap, *ssa.MakeSlice, *ssa.Alloc, *ssa.MakeChan:
			return true
		case *ssa.MakeInterface:
			// boxing a struct, array or basic value copies it: the box is new
			// storage whatever the value was read from
			switch x.X.Type().Underlying().(type) {
			case *types.Struct, *types.Array, *types.Basic:
				return true
			}
			return fresh(x.X, seen)
		case *ssa.ChangeType:
			return fresh(x.X, seen)
		case *ssa.ChangeInterface:
			return fresh(x.X, seen)
		case *ssa.Slice:
			return fresh(x.X, seen)
		case *ssa.Phi:
			for _, e := range x.Edges {
				if !fresh(e, seen) {
					return false
				}
			}
			return true
		case *ssa.Call:
			if b, ok := x.Common().Value.(*ssa.Builtin); ok && b.Name() == "append" {
				return fresh(x.Common().Args[0], seen)
			}
			if c := x.Common().StaticCallee(); c != nil && c != fn && m.inModule(c) {
				return m.returnsFresh(c)
			}
			if !x.Common().IsInvoke() && x.Common().StaticCallee() == nil {
				// an entry of a package-level table of functions: fresh if every entry is
				if cs := m.tableCallees(x.Common().Value); len(cs) > 0 {
					for _, c := range cs {
						if c == fn || !m.returnsFresh(c) {
							return false
						}
					}
					return true
				}
			}
			return false
		case *ssa.Extract:
			if call, ok := x.Tuple.(*ssa.Call); ok {
				if c := call.Common().StaticCallee(); c != nil && c != fn && m.inModule(c) {
					return m.returnsFresh(c)
				}
				if !call.Common().IsInvoke() && call.Common().StaticCallee() == nil {
					if cs := m.tableCallees(call.Common().Value); len(cs) > 0 {
						for _, c := range cs {
							if c == fn || !m.returnsFresh(c) {
								return false
							}
						}
						return true
					}
				}
			}
			return false
		}
		return false
	}
}

// elemsFresh reports whether every slice fn returns holds only elements that
// are themselves fresh storage (the filters made by a constructor collected
// into a new slice): what is loaded from such a slice is a fresh container
// again, not caller memory.
func (m *MutAnalysis) elemsFresh(fn *ssa.Function) bool {
	if fn == nil || len(fn.Blocks) == 0 {
		return false
	}
	key := fn.String()
	if v, ok := m.elemMemo[key]; ok {
		return v
	}
	if m.elemMemo == nil {
		m.elemMemo = map[string]bool{}
	}
	m.elemMemo[key] = false // recursion: assume not
	rootCell := func(v ssa.Value) ssa.Value {
		for {
			switch x := v.(type) {
			case *ssa.FieldAddr:
				v = x.X
			case *ssa.IndexAddr:
				v = x.X
			default:
				return v
			}
		}
	}
	storesInto := func(cell ssa.Value) ([]ssa.Value, bool) {
		var vals []ssa.Value
		for _, b := range fn.Blocks {
			for _, ins := range b.Instrs {
				if st, ok := ins.(*ssa.Store); ok && rootCell(st.Addr) == cell {
					if st.Addr == cell {
						return nil, false // the whole array is overwritten
					}
					vals = append(vals, st.Val)
				}
			}
		}
		return vals, true
	}
	var elems func(v ssa.Value, seen map[ssa.Value]bool) bool
	elems = func(v ssa.Value, seen map[ssa.Value]bool) bool {
		if seen[v] {
			return true
		}
		seen[v] = true
		switch x := v.(type) {
		case *ssa.Const:
			return x.IsNil()
		case *ssa.Phi:
			for _, e := range x.Edges {
				if !elems(e, seen) {
					return false
				}
			}
			return true
		case *ssa.ChangeType:
			return elems(x.X, seen)
		case *ssa.Slice:
			if a, ok := x.X.(*ssa.Alloc); ok {
				vals, ok := storesInto(a)
				if !ok {
					return false
				}
				for _, sv := range vals {
					if !m.freshValue(fn, sv, map[ssa.Value]bool{}) {
						return false
					}
				}
				return true
			}
			return elems(x.X, seen)
		case *ssa.MakeSlice:
			vals, ok := storesInto(x)
			if !ok {
				return false
			}
			for _, sv := range vals {
				if !m.freshValue(fn, sv, map[ssa.Value]bool{}) {
					return false
				}
			}
			return true
		case *ssa.Call:
			com := x.Common()
			if b, ok := com.Value.(*ssa.Builtin); ok && b.Name() == "append" {
				for _, a := range com.Args {
					if !elems(a, seen) {
						return false
					}
				}
				return true
			}
			if c := com.StaticCallee(); c != nil && c != fn && m.inModule(c) {
				return m.returnsFresh(c) && m.elemsFresh(c)
			}
			return false
		case *ssa.Extract:
			if call, ok := x.Tuple.(*ssa.Call); ok {
				if c := call.Common().StaticCallee(); c != nil && c != fn && m.inModule(c) {
					return m.returnsFresh(c) && m.elemsFresh(c)
				}
			}
			return false
		}
		return false
	}
	found := false
	for _, b := range fn.Blocks {
		for _, ins := range b.Instrs {
			ret, ok := ins.(*ssa.Return)
			if !ok {
				continue
			}
			for _, r := range ret.Results {
				if !refLike(r.Type()) || types.Identical(r.Type(), types.Universe.Lookup("error").Type()) {
					continue
				}
				if _, isSlice := r.Type().Underlying().(*types.Slice); !isSlice {
					return false
				}
				found = true
				if !elems(r, map[ssa.Value]bool{}) {
					return false
				}
			}
		}
	}
	m.elemMemo[key] = found
	return found
}

// tableCallees resolves a call of a function value that was loaded from a
// package-level table (a map, array or slice of functions filled in the
// package initialiser): the possible callees are the functions of the same
// signature that the initialiser of that package stores anywhere (a
// superset).  nil when the value does not come from such a table.
func (m *MutAnalysis) tableCallees(v ssa.Value) []*ssa.Function {
	sig, ok := v.Type().Underlying().(*types.Signature)
	if !ok {
		return nil
	}
	// the table: a global reached through loads, lookups and index operations
	var glob *ssa.Global
	cur := v
	for steps := 0; steps < 6 && glob == nil; steps++ {
		switch x := cur.(type) {
		case *ssa.Extract:
			cur = x.Tuple
		case *ssa.Lookup:
			cur = x.X
		case *ssa.Index:
			cur = x.X
		case *ssa.IndexAddr:
			cur = x.X
		case *ssa.Field:
			cur = x.X
		case *ssa.FieldAddr:
			cur = x.X
		case *ssa.UnOp:
			if x.Op != token.MUL {
				return nil
			}
			cur = x.X
		case *ssa.Global:
			glob = x
		default:
			return nil
		}
	}
	if glob == nil || glob.Pkg == nil {
		return nil
	}
	init := glob.Pkg.Func("init")
	if init == nil {
		return nil
	}
	var out []*ssa.Function
	seen := map[*ssa.Function]bool{}
	add := func(val ssa.Value) {
		var f *ssa.Function
		switch y := val.(type) {
		case *ssa.Function:
			f = y
		case *ssa.MakeClosure:
			f, _ = y.Fn.(*ssa.Function)
		case *ssa.ChangeType:
			f, _ = y.X.(*ssa.Function)
		}
		if f != nil && !seen[f] && types.Identical(f.Signature, sig) {
			seen[f] = true
			out = append(out, f)
		}
	}
	for _, b := range init.Blocks {
		for _, ins := range b.Instrs {
			switch x := ins.(type) {
			case *ssa.MapUpdate:
				add(x.Value)
			case *ssa.Store:
				add(x.Val)
			}
		}
	}
	return out
}
