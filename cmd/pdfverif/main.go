// Command pdfverif decides the static rules for the go-pdf properties.
//
//	pdfverif check <property> [quick|thorough]
//	pdfverif explain <replay.json>
//	pdfverif list
package main

import (
	"encoding/json"
	"fmt"
	"os"
	"sort"

	"pdfverif/internal/core"
	"pdfverif/internal/props"
)

func main() {
	if len(os.Args) < 2 {
		usage()
	}
	switch os.Args[1] {
	case "list":
		var ids []string
		for id := range props.Registry {
			ids = append(ids, id)
		}
		sort.Strings(ids)
		for _, id := range ids {
			fmt.Println(id)
		}
	case "check":
		if len(os.Args) < 3 {
			usage()
		}
		tier := "quick"
		if len(os.Args) > 3 {
			tier = os.Args[3]
		} else if t := os.Getenv("VERIF_TIER"); t == "quick" || t == "thorough" {
			tier = t
		}
		os.Exit(props.Run(os.Args[2], tier))
	case "explain":
		if len(os.Args) < 3 {
			usage()
		}
		b, err := os.ReadFile(os.Args[2])
		if err != nil {
			fmt.Println(err)
			os.Exit(2)
		}
		var rec map[string]any
		if err := json.Unmarshal(b, &rec); err != nil {
			fmt.Println(err)
			os.Exit(2)
		}
		prop, _ := rec["property"].(string)
		fmt.Printf("replaying property %s (recorded: rule=%v key=%v)\n%v\n", prop, rec["rule"], rec["key"], rec["detail"])
		os.Setenv("PDFVERIF_ONLY_RULE", fmt.Sprint(rec["rule"]))
		os.Exit(props.Run(prop, "quick"))
	default:
		usage()
	}
	_ = core.ModulePath
}

func usage() {
	fmt.Fprintln(os.Stderr, "usage: pdfverif check <Cxx> [quick|thorough] | explain <file> | list")
	os.Exit(2)
}
