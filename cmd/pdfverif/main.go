// Command pdfverif decides the static rules for the go-pdf properties.
//
//	pdfverif check <property> [quick|thorough]
//	pdfverif explain <replay.json>
//	pdfverif list
package main

import (
	"encoding/json"
	"fmt"
	"go/format"
	"os"
	"sort"
	"strings"

	"pdfverif/internal/core"
	"pdfverif/internal/props"
)

func main() {
	if len(os.Args) < 2 {
		usage()
	}
	switch os.Args[1] {
	case "list":
		var ids []string
		for id := range props.Registry {
			ids = append(ids, id)
		}
		sort.Strings(ids)
		for _, id := range ids {
			fmt.Println(id)
		}
	case "check":
		if len(os.Args) < 3 {
			usage()
		}
		tier := "quick"
		if len(os.Args) > 3 {
			tier = os.Args[3]
		} else if t := os.Getenv("VERIF_TIER"); t == "quick" || t == "thorough" {
			tier = t
		}
		os.Exit(props.Run(os.Args[2], tier))
	case "explain":
		if len(os.Args) < 3 {
			usage()
		}
		b, err := os.ReadFile(os.Args[2])
		if err != nil {
			fmt.Println(err)
			os.Exit(2)
		}
		var rec map[string]any
		if err := json.Unmarshal(b, &rec); err != nil {
			fmt.Println(err)
			os.Exit(2)
		}
		prop, _ := rec["property"].(string)
		fmt.Printf("replaying property %s (recorded: rule=%v key=%v)\n%v\n", prop, rec["rule"], rec["key"], rec["detail"])
		os.Setenv("PDFVERIF_ONLY_RULE", fmt.Sprint(rec["rule"]))
		os.Exit(props.Run(prop, "quick"))
	case "vocab":
		// pdfverif vocab <out.json>: record the names the rules look for and the
		// names the reviewed tree declares (tools/gencounts.sh; never run by a check)
		if len(os.Args) < 3 {
			usage()
		}
		prog, err := core.Load(core.RepoDir(), nil, "./...")
		if err != nil {
			fmt.Println(err)
			os.Exit(2)
		}
		vd := os.Getenv("PDFVERIF_DIR")
		if vd == "" {
			vd, _ = os.Getwd()
		}
		v, err := core.BuildVocab(vd, prog)
		if err == nil {
			err = core.WriteVocab(os.Args[2], v)
		}
		if err != nil {
			fmt.Println(err)
			os.Exit(2)
		}
		fmt.Printf("%d checker functions, %d owners of names\n", len(v.Funcs), len(v.Owners))
	case "inline":
		// debugging aid: pdfverif inline <pattern> [<func key suffix>] prints
		// the normalised (helper-inlined) form of functions, or statistics
		if len(os.Args) < 3 {
			usage()
		}
		prog, err := core.Load(core.RepoDir(), nil, os.Args[2])
		if err != nil {
			fmt.Println(err)
			os.Exit(2)
		}
		total, inl := 0, 0
		for _, pkg := range prog.RepoPkgs() {
			for _, fn := range prog.Funcs(pkg) {
				total++
				in := fn.Inlined()
				in.Graph()
				if in != fn {
					inl++
				}
				if len(os.Args) > 3 && strings.HasSuffix(fn.Key, os.Args[3]) {
					format.Node(os.Stdout, prog.Fset, in.Decl)
					fmt.Println()
				}
			}
		}
		fmt.Printf("%d functions, %d with inlined calls\n", total, inl)
	default:
		usage()
	}
	_ = core.ModulePath
}

func usage() {
	fmt.Fprintln(os.Stderr, "usage: pdfverif check <Cxx> [quick|thorough] | explain <file> | list")
	os.Exit(2)
}
